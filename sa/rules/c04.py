"""C04 — FASTA index and derived assembly describe the file exactly (structural clauses).

 R1 a sequence line's payload (and the residues-per-line figure) is the line minus *its own* terminator
 R2 sequence runs are detected by one +-repeated class equal to exactly {A,C,G,T,a,c,g,t}
 R3 the derived scaffold tiles the record: Σ lengths of rows added == end of the run just added; == record length at the end
 R4 run offsets are (consumed + match offsets); runs touching across a flush are merged; consumed advances after the scan
 R5 duplicate record names raise before the entry is overwritten; a file without records raises
 R6 the faidx quintuple keeps one column order through store site, FastaInfo, fai_row and load_index
"""

from __future__ import annotations

import ast

from ..flow import PathEnum, cond_facts
from ..fold import ASCII, Rx, charset, sre_c, try_fold
from ..model import AnalysisError, Func, Repo, dotted, is_name, norm, walk_shallow
from ..report import Ledger
from ..sym import eq0, B, Const, Lin, State, Str, Sym, SymExec, Tup, as_lin, cmp_lin, NotNumeric
from ..util import contains, names_in, paths

PROP = "C04"
LEVEL = "other"
EXPLANATION = (
    "The single-pass indexer is decided clause by clause: (R1) def-use provenance of what is stripped from a sequence line — "
    "the removed suffix must be computed from that same line, not remembered from the header line; (R2) the run regex is parsed "
    "and its class compared with the ACGT alphabet; (R3) the row builder is interpreted symbolically over 0..3 symbolic runs with "
    "a ghost sum of row lengths, discharged modulo the equalities of the taken branches; (R4) the buffer processor's offset "
    "arithmetic and merge/push branches are interpreted symbolically; (R5) rejection paths; (R6) column-order agreement of the "
    "four places that spell the faidx quintuple. tell()-offsets, CRLF detection and the seek arithmetic of random access are "
    "runtime facts not decided here."
)


def entails_zero(pc, lin: Lin) -> bool:
    """lin == 0 modulo the equality facts of the path condition (substitution of atoms
    that an equality defines with coefficient ±1)."""
    cur = lin
    for _ in range(6):
        if cur.is_zero():
            return True
        progressed = False
        for f in pc:
            if f.kind != "eq":
                continue
            for a, c in f.a.t.items():
                if abs(c) == 1 and cur.coeff(a) != 0:
                    # a = -(rest)/c
                    rest = f.a - Lin({a: c})
                    cur = cur.subst({a: rest.scale(-1 / c)})
                    progressed = True
                    break
        if not progressed:
            break
    return cur.is_zero()


def run(repo: Repo, L: Ledger, tier: str):
    L.rule("R1", "stripped suffix / residues-per-line derive from the current line itself")
    L.rule("R2", "run regex == [ACGTacgt]+")
    L.rule("R3", "Σ L(rows added) == run end after each run; == record length at the end; fragment = (name, start+1, end, +1)")
    L.rule("R4", "offsets = consumed + match offsets; merge iff start == open run's end; consumed += len(buffer) after the scan")
    L.rule("R5", "duplicate name / empty file raise")
    L.rule("R6", "faidx column order agrees across store site, FastaInfo, fai_row, load_index")

    idx = repo.try_func("index_fasta_file", "tola.fasta.index")
    if idx is None:
        raise AnalysisError("anchor index.index_fasta_file vanished")
    store = idx.nested.get("store_info")
    proc = idx.nested.get("process_seq_buffer")
    if store is None or proc is None:
        raise AnalysisError("anchors index_fasta_file.store_info / process_seq_buffer vanished")

    roles = _roles(repo, idx, store, proc)
    _r1(repo, L, idx, roles)
    _r2(repo, L, proc)
    _r3(repo, L, idx, store, roles)
    _r4(repo, L, idx, proc, roles)
    _r4_counter(repo, L, idx, proc, roles)
    _r5(repo, L, idx, store, roles)
    _r6(repo, L, idx, store, roles)


def _roles(repo, idx, store, proc):
    """Variable names by role (so that renaming locals does not matter)."""
    r = {}
    ctor = [c for c in walk_shallow(store.node) if isinstance(c, ast.Call) and dotted(c.func) == "FastaInfo"]
    if len(ctor) != 1 or len(ctor[0].args) != 4 or not all(isinstance(a, ast.Name) for a in ctor[0].args[:3]):
        raise AnalysisError("store_info: FastaInfo(<length>, <offset>, <residues per line>, <line width>) not found")
    r["ctor"] = ctor[0]
    r["length"], r["offset"], r["rpl"] = (a.id for a in ctor[0].args[:3])
    a3 = ctor[0].args[3]
    if isinstance(a3, ast.Name):
        d3 = [n.value for n in walk_shallow(store.node) if isinstance(n, ast.Assign) and len(n.targets) == 1 and is_name(n.targets[0], a3.id)]
        if len(d3) == 1:
            a3 = d3[0]
    r["width_expr"] = a3
    others = names_in(a3) - {r["rpl"]}
    r["line_end"] = next(iter(others)) if len(others) == 1 else None
    key = [n for n in walk_shallow(store.node) if isinstance(n, ast.Assign) and n.value is ctor[0] and isinstance(n.targets[0], ast.Subscript)]
    if len(key) != 1:
        raise AnalysisError("store_info: index entry store not found")
    r["index"] = norm(key[0].targets[0].value)
    r["name"] = norm(key[0].targets[0].slice)
    r["store_stmt"] = key[0]
    return r


# ------------------------------------------------------------------------------ R1


def _line_loop(idx: Func):
    for n in walk_shallow(idx.node):
        if isinstance(n, ast.For) and isinstance(n.target, ast.Name):
            # the loop over the file handle opened in a with
            for a in getattr(n, "_parent", None) and [n._parent] or []:
                pass
            if isinstance(n.iter, ast.Name):
                # header test inside
                ifs = [s for s in n.body if isinstance(s, ast.If)]
                if ifs and ("62" in norm(ifs[0].test) or "b'>'" in norm(ifs[0].test) or "startswith" in norm(ifs[0].test)):
                    return n, ifs[0]
    raise AnalysisError("line loop with header test not found in index_fasta_file")


def _r1(repo, L, idx: Func, roles):
    loop, hdr_if = _line_loop(idx)
    line = loop.target.id
    # the two arms of the header test: if/else, or a guard clause (`if c: ...; continue` followed by the other arm)
    t_arm, f_arm = list(hdr_if.body), list(hdr_if.orelse)
    if not f_arm and t_arm and isinstance(t_arm[-1], ast.Continue):
        t_arm = t_arm[:-1]
        f_arm = loop.body[loop.body.index(hdr_if) + 1:]
    # polarity of the test: `line[0] == 62` / startswith(b'>') selects the header, `!=` / `not` the sequence line
    tst = hdr_if.test
    neg = False
    while isinstance(tst, ast.UnaryOp) and isinstance(tst.op, ast.Not):
        tst, neg = tst.operand, not neg
    if isinstance(tst, ast.Compare) and len(tst.ops) == 1 and isinstance(tst.ops[0], ast.NotEq):
        neg = not neg
    hdr_branch, seq_branch = (f_arm, t_arm) if neg else (t_arm, f_arm)
    if not seq_branch or not hdr_branch:
        raise AnalysisError("header / sequence-line branches of the line loop not both found")

    def assigned_where(name):
        places = set()
        for n in walk_shallow(idx.node):
            tg = []
            if isinstance(n, ast.Assign):
                tg = n.targets
            elif isinstance(n, ast.AugAssign | ast.AnnAssign | ast.NamedExpr):
                tg = [n.target]
            for t in tg:
                if is_name(t, name):
                    if any(contains(s, n) for s in seq_branch):
                        places.add(("seq", n))
                    elif any(contains(s, n) for s in hdr_branch):
                        places.add(("header", n))
                    else:
                        places.add(("outside", n))
        return places

    def derives_from_line(expr, depth=0) -> tuple[bool, str]:
        """Is every free name in expr either the current line or a local computed in the
        sequence branch from the current line?"""
        for nme in names_in(expr):
            if nme == line or nme in ("len", "min", "max", "b", "bytes"):
                continue
            pl = assigned_where(nme)
            if not pl:
                return False, f"'{nme}' is not computed from the current line"
            for where, node in pl:
                if where != "seq":
                    return False, f"'{nme}' is set in the {where} part ({norm(node)[:60]}), i.e. remembered from the header line, not taken from the line being stripped"
                if depth < 3:
                    val = node.value if hasattr(node, "value") else None
                    if val is not None:
                        ok, why = derives_from_line(val, depth + 1)
                        if not ok:
                            return ok, why
                        if line not in names_in(val) and not any(x in names_in(val) for x in _seq_locals(seq_branch, line)):
                            return False, f"'{nme}' does not depend on the current line"
        return True, ""

    # (a) the payload written to the residue buffer
    writes = [c for s in seq_branch for c in [s, *walk_shallow(s)] if isinstance(c, ast.Call) and isinstance(c.func, ast.Attribute) and c.func.attr == "write"]
    if len(writes) != 1:
        raise AnalysisError(f"{len(writes)} buffer writes in the sequence-line branch")
    payload = writes[0].args[0]
    from ..util import resolve_local

    def strip_form(e):
        """('rstrip'|'slice'|'other', detail)"""
        if isinstance(e, ast.Name) and e.id != line:
            defs = [n.value for w, n in assigned_where(e.id) if w == "seq" and hasattr(n, "value")]
            if len(defs) == 1:
                return strip_form(defs[0])
        if isinstance(e, ast.Call) and isinstance(e.func, ast.Attribute) and e.func.attr in ("rstrip", "strip") and is_name(e.func.value, line):
            arg = try_fold(e.args[0], default=None) if e.args else b" \t\n\r\x0b\x0c"
            return "rstrip", arg
        if isinstance(e, ast.Subscript) and is_name(e.value, line) and isinstance(e.slice, ast.Slice) and e.slice.lower is None and e.slice.step is None and e.slice.upper is not None:
            return "slice", e.slice.upper
        if isinstance(e, ast.Call) and isinstance(e.func, ast.Attribute) and e.func.attr in ("removesuffix",) and is_name(e.func.value, line):
            return "other", "removesuffix handles one fixed terminator only"
        return "other", norm(e)

    inst = f"{idx.short}:payload"
    rpl_sets = [n for s in seq_branch for n in [s, *walk_shallow(s)] if isinstance(n, ast.Assign) and is_name(n.targets[0], roles["rpl"])]
    if len(rpl_sets) != 1:
        raise AnalysisError("assignment of the residues-per-line figure in the sequence branch not found")
    pv = _r1_by_probes(idx, hdr_branch, seq_branch, line, roles, writes[0], payload)
    if pv is not None:
        (okp, whyp, wp), (okr, whyr, wr), nprobes = pv
        L.check(okp, "R1", inst, f"payload is the line minus its own CR/LF terminator on {nprobes} (header ending x sequence line) probes, by constant propagation", whyp, idx.loc(writes[0]), witness=wp)
        L.check(okr, "R1", f"{idx.short}:residues_per_line", f"length of the first sequence line minus its own terminator ({nprobes} probes)", whyr, idx.loc(rpl_sets[0]), witness=wr)
        return
    form, detail = strip_form(payload)
    if form == "rstrip":
        ok = isinstance(detail, bytes) and set(detail) >= {10, 13} and not (set(detail) & set(b"ACGTNacgtn"))
        L.check(ok, "R1", inst, f"line.rstrip({detail!r}): removes exactly the line's own terminator bytes", f"rstrip({detail!r}) does not strip CR/LF only", idx.loc(writes[0]))
    elif form == "slice":
        ok, why = derives_from_line(detail)
        L.check(
            ok, "R1", inst, "slice bound computed from the current line",
            f"sequence line is cut with '{norm(payload)}': {why}. A last line without a final newline loses its last residue(s)",
            idx.loc(writes[0]), witness={"file": ">s1\\nACGTAC\\nACG (no final newline)", "indexed length": 8, "true length": 9},
        )
    else:
        raise AnalysisError(f"payload '{norm(payload)}' ({detail}): neither foldable on probe lines nor a recognised strip form; form not understood")

    # (b) residues per line
    v = rpl_sets[0].value
    inst = f"{idx.short}:residues_per_line"
    ok, why = True, ""
    if isinstance(v, ast.Call) and dotted(v.func) == "len" and len(v.args) == 1:
        f2, d2 = strip_form(v.args[0])
        if f2 == "rstrip":
            ok = isinstance(d2, bytes) and set(d2) >= {10, 13}
            why = "rstrip does not strip CR/LF"
        elif f2 == "slice":
            ok, why = derives_from_line(d2)
        else:
            ok, why = False, f"len() of '{norm(v.args[0])}'"
    elif isinstance(v, ast.BinOp) and isinstance(v.op, ast.Sub) and norm(v.left) == f"len({line})":
        ok, why = derives_from_line(v.right)
    else:
        ok, why = derives_from_line(v)
        if ok and line not in names_in(v) and not (names_in(v) & _seq_locals(seq_branch, line)):
            ok, why = False, "does not depend on the first sequence line"
    L.check(
        ok, "R1", inst, "length of the first sequence line minus its own terminator",
        f"residues-per-line is '{norm(v)}': {why}. A single-line record without a final newline gets a line width one short, so random access into it reads the wrong bytes",
        idx.loc(rpl_sets[0]), witness={"file": ">s\\nACGT (no final newline)", "residues_per_line": 3},
    )


def _r1_by_probes(idx, hdr_arm, seq_arm, line, roles, write_call, payload):
    """Decide R1 by constant propagation: the header arm of the line loop is run on a header probe (LF / CRLF), the sequence
    arm on probe sequence lines under each resulting state.  -> ((ok, why, witness) payload, (ok, why, witness) rpl, n) or None
    when the arms do not fold on the probes (the caller then falls back to the syntactic forms)."""
    from ..finite import UNKNOWN as _UNK, Opaque as _Opq, fold_env as _fold_env, run_paths as _run_paths
    from ..fold import NotConstant as _NC

    write_stmt = next((s for s in (n for b in seq_arm for n in [b, *walk_shallow(b)]) if isinstance(s, ast.Expr) and s.value is write_call), None)
    if write_stmt is None:
        return None
    rpl = roles["rpl"]
    hdrs = [b">s1\n", b">s1 desc\r\n"]
    bodies = [b"ACGT", b"acgtNNnn-*RYK", b"N", b"A"]
    ends = [b"\n", b"\r\n", b""]
    okp = okr = True
    whyp = whyr = ""
    wp = wr = None
    n = 0
    for hp in hdrs:
        states = [r["env"] for r in _run_paths(hdr_arm, {line: hp, roles["name"]: "", "name": ""}, loop_iters=(0,)) if r["path"].status != "raise"]
        if not states:
            return None
        for st in states[:4]:
            for body in bodies:
                for end in ends:
                    probe = body + end
                    env0 = {k: v for k, v in st.items()}
                    env0[line] = probe
                    env0[rpl] = None
                    n += 1
                    # payload: valuation just before the buffer write
                    cut = [r for r in _run_paths(seq_arm, env0, loop_iters=(0,), stop_at=lambda nd: nd is write_stmt) if r["stopped"] is not None]
                    if not cut:
                        return None
                    for r in cut:
                        try:
                            val = _fold_env(payload, r["env"])
                        except _NC:
                            return None
                        if val is _UNK or isinstance(val, _Opq) or not isinstance(val, bytes | bytearray):
                            return None
                        if bytes(val) != body and okp:
                            okp = False
                            whyp = (
                                f"after a header line ending {hp[-2:]!r} the sequence line {probe!r} is buffered as {bytes(val)!r}, not {body!r}: "
                                "the residue count, the residues-per-line figure and every run coordinate derived from the buffer are wrong"
                            )
                            wp = {"header": repr(hp), "line": repr(probe), "buffered": repr(bytes(val)), "expected": repr(body)}
                    # residues per line after the first sequence line
                    fin = [r for r in _run_paths(seq_arm, env0, loop_iters=(0,)) if r["path"].status != "raise"]
                    if not fin:
                        return None
                    for r in fin:
                        v = r["env"].get(rpl)
                        if v is _UNK or isinstance(v, _Opq) or isinstance(v, bool) or not isinstance(v, int):
                            return None
                        if v != len(body) and okr:
                            okr = False
                            whyr = f"after a header line ending {hp[-2:]!r} a first sequence line {probe!r} sets residues-per-line to {v}, not {len(body)}: random access into the record seeks to the wrong byte"
                            wr = {"header": repr(hp), "line": repr(probe), "residues_per_line": v, "expected": len(body)}
    return (okp, whyp, wp), (okr, whyr, wr), n


def _seq_locals(seq_branch, line):
    out = set()
    for s in seq_branch:
        for n in [s, *walk_shallow(s)]:
            if isinstance(n, ast.Assign) and isinstance(n.targets[0], ast.Name) and line in names_in(n.value):
                out.add(n.targets[0].id)
    return out


# ------------------------------------------------------------------------------ R2


def _r2(repo, L, proc: Func):
    calls = [c for c in walk_shallow(proc.node) if isinstance(c, ast.Call) and (dotted(c.func) or "") in ("re.finditer", "re.findall", "re.compile")]
    if len(calls) != 1:
        raise AnalysisError("run-detection regex call not found in process_seq_buffer")
    c = calls[0]
    pat = try_fold(c.args[0], default=None)
    if not isinstance(pat, bytes | str):
        raise AnalysisError("run regex is not a constant")
    flags = c.args[2] if len(c.args) > 2 else None
    for k in c.keywords:
        if k.arg == "flags":
            flags = k.value
    rx = Rx(pat)
    items = rx.items()
    ok, why = False, f"pattern {pat!r} is not a single +-repeated character class"
    if len(items) == 1 and items[0][0] in (sre_c.MAX_REPEAT,) and items[0][1][0] == 1 and items[0][1][1] is sre_c.MAXREPEAT and len(items[0][1][2]) == 1:
        cs = charset(items[0][1][2][0], range(256))
        want = frozenset(b"ACGTacgt")
        ok = cs == want and flags is None
        extra = bytes(sorted(cs - want))
        miss = bytes(sorted(want - cs))
        why = f"run class of {pat!r} differs from ACGT/acgt: extra {extra!r}, missing {miss!r}" + ("; regex flags given" if flags is not None else "")
    L.check(ok, "R2", proc.short, "[ACGTacgt]+", why, proc.loc(c), witness={"pattern": repr(pat)})


# ------------------------------------------------------------------------------ R3


class _RowExec(SymExec):
    def inline(self, func):
        return func.name == "__init__" or func.is_property

    def call_default(self, st, n, fval, args, kwargs, func, depth):
        if isinstance(n.func, ast.Attribute) and n.func.attr == "add_row" and len(args) == 1:
            st.effects.append(("add_row", n, args[0]))
            return Const(None)
        if isinstance(n.func, ast.Attribute) and n.func.attr == "add_scaffold":
            st.effects.append(("add_scaffold", n, args[0] if args else None))
            return Const(None)
        return super().call_default(st, n, fval, args, kwargs, func, depth)


def _r3(repo, L, idx, store: Func, roles):
    body = store.node.body
    start_i = next((i for i, s in enumerate(body) if isinstance(s, ast.Assign) and isinstance(s.value, ast.Call) and dotted(s.value.func) == "Scaffold"), None)
    if start_i is None:
        raise AnalysisError("scaffold construction not found in store_info")
    stmts = body[start_i:]
    ex = _RowExec(repo, loop_iters=(0, 1, 2, 3))
    st = State()
    st.env["__func__"] = store
    loops = [n for n in stmts if isinstance(n, ast.For) and isinstance(n.iter, ast.Name)]
    if len(loops) != 1:
        raise AnalysisError("store_info: loop over the run list not found")
    st.env[loops[0].iter.id] = Sym("R")
    st.env[roles["length"]] = Lin.atom("N")
    st.env[roles["name"]] = Sym("NAME")
    outs = [r for r in ex.run_block(stmts, st, store) if r.status == "run"]
    frag = repo.cls("Fragment")
    gap = repo.cls("Gap")
    n_paths = 0
    bad = None
    n_rows = 0
    for r in outs:
        n_paths += 1
        covered = Lin.const(0)
        k = -1
        last_end = Lin.const(0)
        rows = [e for e in r.effects if e[0] == "add_row"]
        added = [e for e in r.effects if e[0] == "add_scaffold"]
        if len(added) != 1:
            bad = bad or (r, "the derived scaffold is not added to the assembly exactly once")
        for _, node, row in rows:
            n_rows += 1
            if not isinstance(row, Sym) or row.cls is None:
                bad = bad or (r, f"row {row!r} is not a constructed Fragment/Gap")
                continue
            hs = {kk[1]: v for kk, v in r.heap.items() if kk[0] == row.name}
            if row.cls is frag:
                k += 1
                s_atom, e_atom = Lin.atom(f"R[{k}][0]"), Lin.atom(f"R[{k}][1]")
                try:
                    fs, fe = as_lin(hs["_start"]), as_lin(hs["_end"])
                except (KeyError, NotNumeric):
                    raise AnalysisError("the coordinates of the fragment built for a run are not linear integer forms: no verdict")
                if fs != s_atom + 1 or fe != e_atom:
                    bad = bad or (r, f"run {k} (0-based half-open [{s_atom}, {e_atom})) becomes fragment {fs}..{fe}; expected 1-based inclusive {s_atom + 1}..{e_atom}")
                nm = hs.get("_name")
                while isinstance(nm, Str):
                    nm = nm.v
                if not (isinstance(nm, Sym) and nm.name == "NAME"):
                    bad = bad or (r, f"fragment is named {nm!r}, not after the record")
                try:
                    if as_lin(hs.get("_strand")) != Lin.const(1):
                        bad = bad or (r, f"fragment strand is {hs.get('_strand')!r}, expected +1")
                except NotNumeric:
                    bad = bad or (r, "fragment strand not constant")
                covered = covered + (fe - fs + 1)
                if not entails_zero(r.pc, covered - e_atom):
                    bad = bad or (r, f"after run {k} the rows cover {covered} bases but the run ends at {e_atom}: a hole or an overlap in the tiling")
            elif row.cls is gap:
                try:
                    gl = as_lin(hs["_length"])
                except (KeyError, NotNumeric):
                    bad = bad or (r, "gap length is not an integer form")
                    continue
                covered = covered + gl
            else:
                bad = bad or (r, f"row of class {row.cls.name}")
        if not entails_zero(r.pc, covered - Lin.atom("N")):
            bad = bad or (r, f"rows cover {covered} bases, the record has N: trailing non-ACGT run not represented (or over-represented)")
        if k + 1 != sum(1 for e in r.path.events if e.kind == "iter" and e.val[0] == "next"):
            bad = bad or (r, "a run produces no fragment row")
    if bad:
        r, msg = bad
        L.fail("R3", store.short, msg, store.loc(), path=r.path.describe() if r.path else None)
    else:
        L.ok("R3", store.short, f"tiling invariant on {n_paths} paths / {n_rows} symbolic rows", store.loc())
    L.floor("R3", "symbolic rows", n_rows, 10)


# ------------------------------------------------------------------------------ R4


def _r4_counter(repo, L, idx: Func, proc: Func, roles):
    """R4 (invariant behind the run offsets): the residue counter equals the number of residues *before the first byte still in
    the buffer*.  Inside the flush it advances by the length of what was taken out; anywhere else it may only change while the
    buffer is empty: on every path through the line loop's body to such a change there is a flush (a call that reaches the
    flush function) or a test that found the buffer empty -- or the change is the reset to a constant in the header arm."""
    from ..flow import cond_facts

    cnt = roles["length"]
    loop, _hdr = _line_loop(idx)
    buf = None
    for c in walk_shallow(proc.node):
        if isinstance(c, ast.Call) and isinstance(c.func, ast.Attribute) and c.func.attr == "getvalue" and isinstance(c.func.value, ast.Name):
            buf = c.func.value.id
    if buf is None:
        raise AnalysisError("process_seq_buffer: buffer variable (getvalue) not found")
    flushers = {proc.name}
    for nm, nf in idx.nested.items():
        if any(isinstance(c, ast.Call) and isinstance(c.func, ast.Name) and c.func.id == proc.name for c in walk_shallow(nf.node)):
            flushers.add(nm)
    sites = []
    for n in [x for s_ in loop.body for x in [s_, *walk_shallow(s_)]]:
        if isinstance(n, ast.AugAssign) and is_name(n.target, cnt):
            sites.append(n)
        elif isinstance(n, ast.Assign) and any(is_name(t, cnt) for t in n.targets) and try_fold(n.value, default=NotImplemented) is NotImplemented:
            sites.append(n)
    n_paths = 0
    bad = None
    for site in sites:
        for p in PathEnum((0, 1), exc_edges=False).block(loop.body):
            hit = next((i for i, e in enumerate(p.events) if e.kind == "stmt" and e.node is site), None)
            if hit is None:
                continue
            n_paths += 1
            empty = False
            for e in p.events[:hit]:
                if e.kind in ("stmt", "cond"):
                    for c in [x for x in [e.node, *walk_shallow(e.node)] if isinstance(x, ast.Call)]:
                        if isinstance(c.func, ast.Name) and c.func.id in flushers:
                            empty = True
                        if isinstance(c.func, ast.Attribute) and is_name(c.func.value, buf) and c.func.attr == "write":
                            empty = False
                if e.kind == "cond":
                    for t, v in cond_facts(e.node, e.val):
                        if norm(t).replace(" ", "") in (f"{buf}.tell()", f"len({buf}.getvalue())", f"{buf}.getbuffer().nbytes") and v is False:
                            empty = True
            if not empty and bad is None:
                bad = (site, p)
    if bad:
        site, p = bad
        L.fail(
            "R4", f"{idx.short}:counter-outside-flush",
            f"'{norm(site)}' advances the residue counter in the line loop on a path that neither flushed the buffer nor found it empty ({p.describe()[:100]}): lines still waiting in the buffer are then scanned at offsets shifted by that amount and joined to what follows the skipped line, so the run coordinates depend on where the last flush happened to fall, i.e. on buffer_size",
            idx.loc(site), witness={"file": "ACGT lines, a line of N only, ACGT lines; buffer_size larger than a line"},
        )
    else:
        L.ok("R4", f"{idx.short}:counter-outside-flush", f"the residue counter changes outside the flush only with the buffer empty ({len(sites)} site(s), {n_paths} path(s))", idx.loc())


def _r4(repo, L, idx, proc: Func, roles):
    loops = [n for n in proc.node.body if isinstance(n, ast.For)]
    if len(loops) != 1:
        raise AnalysisError("match loop not found in process_seq_buffer")
    lp = loops[0]
    # every run handed to the merge logic is a match of the run regex: the loop iterates the finditer(...) result itself, or
    # a container whose every definition is built from it
    def from_regex(e, depth=0):
        if isinstance(e, ast.Call) and (dotted(e.func) or "") in ("re.finditer", "re.findall"):
            return True
        if isinstance(e, ast.ListComp | ast.GeneratorExp) and len(e.generators) == 1 and not e.generators[0].ifs:
            return from_regex(e.generators[0].iter, depth)
        if isinstance(e, ast.Call) and dotted(e.func) in ("list", "tuple", "iter") and len(e.args) == 1:
            return from_regex(e.args[0], depth)
        if isinstance(e, ast.Name) and depth < 3:
            from ..util import local_defs

            ds = local_defs(proc, e.id)
            return bool(ds) and all(from_regex(d, depth + 1) for d in ds)
        return False

    if not from_regex(lp.iter) and isinstance(lp.iter, ast.Name):
        # a second source of runs guarded by a test on the buffer (fast path): decided by evaluating the guard and the
        # alternative on probe buffers — it may only be taken for buffers made of ACGT/acgt alone, and must then give the
        # single span the pattern would give
        verdict = _fast_path_verdict(proc, lp.iter.id, from_regex)
        if verdict is True:
            L.ok("R2", proc.short + ":runs-from-regex", "the non-regex source of runs is only taken for all-ACGT buffers and yields the span the pattern would", proc.loc(lp))
        elif isinstance(verdict, tuple):
            probe, why_ = verdict
            L.fail("R2", proc.short + ":runs-from-regex", f"for the buffer {probe!r} {why_}: non-ACGT symbols (IUPAC codes, '-', '*') are absorbed into a fragment instead of becoming a gap", proc.loc(lp), witness={"buffer": repr(probe)})
            return
        else:
            raise AnalysisError(f"{proc.short}: runs are taken from a source other than the ACGT pattern under a condition the rule cannot evaluate")
    elif not from_regex(lp.iter):
        srcs = [norm(lp.iter)[:50]]
        if isinstance(lp.iter, ast.Name):
            from ..util import local_defs

            srcs = [norm(d)[:60] for d in local_defs(proc, lp.iter.id)]
        L.fail("R2", proc.short + ":runs-from-regex", f"the runs that become fragments are taken from {srcs}: at least one source is not a match of the ACGT run pattern, so non-ACGT symbols (IUPAC codes, '-', '*') can be absorbed into a fragment instead of becoming a gap", proc.loc(lp), witness={"buffer": "a flush containing an ambiguity code but no N"})
        return
    if not isinstance(lp.target, ast.Name):
        raise AnalysisError("process_seq_buffer: the match loop unpacks its items (not a plain match object): form not understood")
    mv = lp.target.id
    cons = roles["length"]
    # role discovery inside the loop
    sv = ev = None

    def expand(e, depth=0):
        """text of e with single-definition locals of the loop body substituted"""
        if isinstance(e, ast.Name) and depth < 3:
            defs = [x.value for x in walk_shallow(lp) if isinstance(x, ast.Assign) and len(x.targets) == 1 and is_name(x.targets[0], e.id)]
            if len(defs) == 1 and not isinstance(defs[0], ast.Name):
                return expand(defs[0], depth + 1)
        if isinstance(e, ast.BinOp):
            return f"{expand(e.left, depth)}{type(e.op).__name__}{expand(e.right, depth)}"
        return norm(e).replace(" ", "")

    for n in walk_shallow(lp):
        if isinstance(n, ast.Assign) and isinstance(n.targets[0], ast.Name) and isinstance(n.value, ast.BinOp):
            t = expand(n.value)
            if f"{mv}.start()" in t:
                sv = n.targets[0].id
            if f"{mv}.end()" in t:
                ev = n.targets[0].id
    if sv is None or ev is None:
        raise AnalysisError("process_seq_buffer: run offsets (consumed + m.start()/m.end()) not recognised")
    rev = rsv = regs = None
    for n in walk_shallow(lp):
        if isinstance(n, ast.Assign) and isinstance(n.value, ast.Name) and isinstance(n.targets[0], ast.Name):
            if n.value.id == ev:
                rev = n.targets[0].id
            if n.value.id == sv:
                rsv = n.targets[0].id
        if isinstance(n, ast.Call) and isinstance(n.func, ast.Attribute) and n.func.attr == "append" and isinstance(n.func.value, ast.Name):
            regs = n.func.value.id
    if rev is None or rsv is None or regs is None:
        raise AnalysisError("process_seq_buffer: open-run variables not recognised")
    ex = SymExec(repo, loop_iters=(0,))
    ex.inline = lambda f: False
    st = State()
    st.env["__func__"] = proc
    st.env[cons] = Lin.atom("C")
    st.env[rsv] = Lin.atom("RS")
    st.env[rev] = Lin.atom("RE")
    st.env[regs] = Sym("R")
    st.env[mv] = Sym("m")
    outs = ex.run_block(lp.body, st, proc)
    ok, why = True, ""
    seen = set()
    C = Lin.atom("C")
    for r in outs:
        calls = {e[2][0]: e for e in r.effects if e[0] == "call"}
        # offsets
        try:
            s_, e_ = as_lin(r.env[sv]), as_lin(r.env[ev])
        except (KeyError, NotNumeric):
            raise AnalysisError("the offsets of a pushed run are not linear integer forms: no verdict")
        s_off = s_ - C
        e_off = e_ - C
        if not (len(s_off.t) == 1 and f"{mv}.start" in str(list(s_off.t)[0]) and s_off.c == 0):
            ok, why = False, f"run start is {s_}, expected consumed + m.start()"
        if not (len(e_off.t) == 1 and f"{mv}.end" in str(list(e_off.t)[0]) and e_off.c == 0):
            ok, why = False, f"run end is {e_}, expected consumed + m.end()"
        merged = cmp_lin("==", s_, Lin.atom("RE")) in r.pc
        pushes = [e for e in r.effects if e[0] in ("call", "list-mut") and "append" in str(e[2][0] if e[0] == "call" else e[2][1])]
        re1, rs1 = r.env.get(rev), r.env.get(rsv)
        if merged:
            seen.add("merge")
            if not (re1 == e_ and rs1 == Lin.atom("RS") and not pushes):
                ok, why = False, f"touching runs: open run becomes [{rs1}, {re1}) with {len(pushes)} pushes; expected the open run extended to the new end, nothing pushed"
        else:
            has_open = any(f == B("not", eq0(Lin.atom("RE"))) or repr(f) == repr(B("not", eq0(Lin.atom("RE")))) for f in r.pc)
            no_open = any(f == eq0(Lin.atom("RE")) for f in r.pc)
            seen.add("push" if has_open else "first" if no_open else "?")
            if not (re1 == e_ and rs1 == s_):
                ok, why = False, f"new run opens as [{rs1}, {re1}), expected [{s_}, {e_})"
            if has_open:
                if len(pushes) != 1:
                    ok, why = False, f"open run pushed {len(pushes)} times before a new one starts"
                else:
                    arg = pushes[0][2][1][0] if pushes[0][0] == "call" else None
                    if not (isinstance(arg, Tup) and len(arg.items) == 2 and arg.items[0] == Lin.atom("RS") and arg.items[1] == Lin.atom("RE")):
                        ok, why = False, f"pushed run is {arg!r}, expected (region_start, region_end)"
            if no_open and pushes:
                ok, why = False, "a run is pushed although none is open"
    if not {"merge", "push", "first"} <= seen:
        ok, why = False, why or f"branches seen {sorted(seen)}; expected merge / push-and-open / first-run"
    L.check(ok, "R4", proc.short + ":runs", "offset arithmetic and merge/push branches", why, proc.loc(lp))
    # consumed advanced after the scan by the buffer length; buffer emptied
    after = proc.node.body[proc.node.body.index(lp) + 1:]
    adv = [n for n in after if isinstance(n, ast.AugAssign) and is_name(n.target, cons) and isinstance(n.op, ast.Add)]
    before = proc.node.body[: proc.node.body.index(lp)]
    adv_before = [n for n in before if isinstance(n, ast.AugAssign | ast.Assign) and any(is_name(t, cons) for t in ([n.target] if isinstance(n, ast.AugAssign) else n.targets))]
    bufv = None
    for n in before:
        if isinstance(n, ast.Assign) and isinstance(n.value, ast.Call) and isinstance(n.value.func, ast.Attribute) and n.value.func.attr == "getvalue":
            bufv = n.targets[0].id
    ok2 = len(adv) == 1 and not adv_before and bufv is not None and norm(adv[0].value) == f"len({bufv})" and norm(lp.iter).endswith(f", {bufv})")
    L.check(ok2, "R4", proc.short + ":consumed", "consumed += len(buffer) once, after the scan of that same buffer", "the consumed-residue counter is not advanced by the scanned buffer's length after the scan: run offsets drift at every flush", proc.loc())


# ------------------------------------------------------------------------------ R5


def _fast_path_verdict(proc: Func, var: str, from_regex):
    """The loop variable `var` has several definitions, some not from the run pattern.  -> True | (probe, reason) | None"""
    from ..fold import Folder, NotConstant
    from ..util import ancestors as _anc

    defs = [n for n in walk_shallow(proc.node) if isinstance(n, ast.Assign) and len(n.targets) == 1 and is_name(n.targets[0], var)]
    alts = [n for n in defs if not from_regex(n.value)]
    if not alts or len(alts) == len(defs):
        return None
    # the buffer variable: argument of the regex call
    buf = None
    for c in walk_shallow(proc.node):
        if isinstance(c, ast.Call) and (dotted(c.func) or "") in ("re.finditer", "re.findall") and len(c.args) >= 2 and isinstance(c.args[1], ast.Name):
            buf = c.args[1].id
    if buf is None:
        return None
    probes = [b"", b"A", b"ACGT", b"acgtACGTacgt", b"ACGTRACGT", b"AC-GT", b"*", b"R", b"ACGTN", b"nACGT", b"AC GT", b"ACGT\r", b"ACGTY"]
    acgt = set(b"ACGTacgt")
    for alt in alts:
        guards = []
        cur = alt
        for a in _anc(alt):
            if isinstance(a, ast.If):
                side = any(cur is s_ or contains(s_, cur) for s_ in a.body)
                guards.append((a.test, side))
            if isinstance(a, ast.FunctionDef):
                break
            cur = a
        if not guards:
            return None
        for pb in probes:
            try:
                taken = all(bool(Folder({buf: pb}).fold(t)) == side for t, side in guards)
                if not taken:
                    continue
                runs = Folder({buf: pb}).fold(alt.value)
            except (NotConstant, Exception):
                return None
            if not set(pb) <= acgt:
                return (pb, f"the alternative source is taken although the buffer holds a symbol outside ACGT/acgt and gives the runs {runs}")
            want = [(0, len(pb))] if pb else []
            got = [tuple(x) for x in runs] if isinstance(runs, list | tuple) else runs
            if got != want:
                return (pb, f"the alternative source gives {got}, the pattern gives {want}")
    return True


def _header_time_duplicate_test(idx: Func, roles):
    """-> 'complete' | 'pending-missed' | None"""
    ixd, nmv = roles["index"], roles["name"]
    try:
        loop, hdr_if = _line_loop(idx)
    except AnalysisError:
        return None
    # paths of the header arm that rebind the current name from a new-name local
    tst = hdr_if.test
    arm = hdr_if.body
    rebinds = [n for n in walk_shallow(hdr_if) if isinstance(n, ast.Assign) and any(is_name(t, nmv) for t in n.targets) and isinstance(n.value, ast.Name)]
    if len(rebinds) != 1:
        return None
    newv = rebinds[0].value.id
    verdicts = set()
    for p in PathEnum((0, 1), exc_edges=False).block(arm):
        if p.status == "raise":
            continue
        if not any(e.kind == "stmt" and e.node is rebinds[0] for e in p.events):
            continue
        in_index = pending = False
        for e in p.events:
            if e.kind == "stmt" and e.node is rebinds[0]:
                break
            if e.kind == "cond":
                for t, v in cond_facts(e.node, e.val):
                    tt = norm(t).replace(" ", "")
                    if tt in (f"{newv}in{ixd}", f"{ixd}.get({newv})") and v is False:
                        in_index = True
                    if tt in (f"{newv}=={nmv}", f"{nmv}=={newv}") and v is False:
                        pending = True
                    if tt in (f"{newv}!={nmv}", f"{nmv}!={newv}") and v is True:
                        pending = True
        verdicts.add("complete" if in_index and pending else "pending-missed" if in_index else "none")
    if verdicts == {"complete"}:
        return "complete"
    if "pending-missed" in verdicts and "none" not in verdicts:
        return "pending-missed"
    return None


def _r5(repo, L, idx, store: Func, roles):
    ixd, nmv = roles["index"], roles["name"]
    ok, why = True, ""
    n_store = 0
    for p in paths(store, (0, 1), exc_edges=False):
        stores = [i for i, e in enumerate(p.events) if e.kind == "stmt" and isinstance(e.node, ast.Assign) and isinstance(e.node.targets[0], ast.Subscript) and norm(e.node.targets[0].value) == ixd]
        if not stores:
            continue
        n_store += 1
        tested = False
        for e in p.events[: stores[0]]:
            if e.kind == "cond":
                for t, v in cond_facts(e.node, e.val):
                    tt = norm(t).replace(" ", "")
                    if tt in (f"{ixd}.get({nmv})", f"{nmv}in{ixd}") and v is False:
                        tested = True
                    # the same test spelled with None:  idx.get(name) is None  (true)  /  idx.get(name) is not None  (false)
                    if tt == f"{ixd}.get({nmv})isNone" and v is True:
                        tested = True
                    if tt == f"{ixd}.get({nmv})isnotNone" and v is False:
                        tested = True
        if not tested:
            ok, why = False, "an index entry is stored on a path that did not test for an existing entry of the same name: a duplicate record silently replaces the first"
    if not ok and n_store > 0:
        # the test may be made when the NEXT header is read (fail fast): then the new name has to be compared with every stored
        # name AND with the record just finished, which is not in the index yet
        hdr = _header_time_duplicate_test(idx, roles)
        if hdr == "complete":
            L.ok("R5", store.short + ":duplicate", "duplicate names rejected when the header is read (stored names and the pending record)", store.loc())
            return
        if hdr == "pending-missed":
            L.fail("R5", store.short + ":duplicate", "the duplicate test made at header time compares the new name with the stored entries only: the record just finished is not stored yet, so a record with the same name as the one directly before it silently replaces it", store.loc(), witness={"file": ">a\\nACGT\\n>a\\nTTTT\\n"})
            return
    dup_raise = any(p.status == "raise" and any(e.kind == "cond" and ixd in norm(e.node) and e.val for e in p.events) for p in paths(store, (0, 1), exc_edges=False))
    if not dup_raise:
        ok, why = False, why or "no raising path for a duplicate record name"
    L.check(ok and n_store > 0, "R5", store.short + ":duplicate", "duplicate names raise before the entry is overwritten", why, store.loc())
    # empty file
    ok2 = False
    for p in paths(idx, (0,), exc_edges=False):
        if p.status == "raise":
            for e in p.events:
                if e.kind == "cond" and norm(e.node) == ixd and e.val is False:
                    ok2 = True
                if e.kind == "cond" and norm(e.node) == f"not {ixd}" and e.val is True:
                    ok2 = True
    L.check(ok2, "R5", idx.short + ":empty", "a file yielding no record raises", "a FASTA file without records does not end in an error", idx.loc())


# ------------------------------------------------------------------------------ R6


def _r6(repo, L, idx, store: Func, roles):
    info = repo.cls("FastaInfo")
    init = info.methods.get("__init__")
    params = init.params()[1:]
    want = ["length", "file_offset", "residues_per_line", "max_line_length"]
    L.check(params == want, "R6", "FastaInfo.__init__", f"parameters {want}", f"FastaInfo parameters are {params}", init.loc())
    ok = all(any(isinstance(n, ast.Assign) and norm(n.targets[0]) == f"self.{p}" and p in names_in(n.value) and len(names_in(n.value) - {"int"}) == 1 for n in walk_shallow(init.node)) for p in params)
    L.check(ok, "R6", "FastaInfo.__init__:fields", "each parameter stored in its own field", "a FastaInfo field is filled from the wrong parameter", init.loc())
    # store site: the four arguments by role
    c0 = roles["ctor"]
    proc = idx.nested.get("process_seq_buffer")
    consumed = {n.target.id for n in walk_shallow(proc.node) if isinstance(n, ast.AugAssign) and isinstance(n.target, ast.Name) and isinstance(n.value, ast.Call) and dotted(n.value.func) == "len"}
    tell = {n.targets[0].id for n in walk_shallow(idx.node) if isinstance(n, ast.Assign) and isinstance(n.targets[0], ast.Name) and isinstance(n.value, ast.Call) and isinstance(n.value.func, ast.Attribute) and n.value.func.attr == "tell"}
    a3 = norm(roles.get("width_expr", c0.args[3])).replace(" ", "")
    ok = roles["length"] in consumed and roles["offset"] in tell and roles["line_end"] is not None and a3 in (f"{roles['rpl']}+{roles['line_end']}", f"{roles['line_end']}+{roles['rpl']}")
    why = f"index entry built as FastaInfo({', '.join(norm(x) for x in c0.args)}); expected (residue count, offset from tell() after the header, residues per line, residues per line + terminator width)"
    L.check(ok, "R6", store.short + ":entry", "(length, offset, linebases, linebases + terminator)", why, store.loc())
    # the terminator width is detected from the header line (1 or 2 bytes): decided by constant propagation through the
    # header arm of the line loop on probe header lines
    from ..finite import UNKNOWN as _UNK, Opaque as _Opq, run_paths as _run_paths

    le_var = roles["line_end"]
    if not le_var:
        raise AnalysisError("terminator width variable not identified")
    loop_, hdr_if_ = _line_loop(idx)
    t_arm, f_arm = list(hdr_if_.body), list(hdr_if_.orelse)
    if not f_arm and t_arm and isinstance(t_arm[-1], ast.Continue):
        t_arm, f_arm = t_arm[:-1], loop_.body[loop_.body.index(hdr_if_) + 1:]
    tst_ = hdr_if_.test
    neg_ = False
    while isinstance(tst_, ast.UnaryOp) and isinstance(tst_.op, ast.Not):
        tst_, neg_ = tst_.operand, not neg_
    if isinstance(tst_, ast.Compare) and len(tst_.ops) == 1 and isinstance(tst_.ops[0], ast.NotEq):
        neg_ = not neg_
    hdr_arm = f_arm if neg_ else t_arm
    lv_ = loop_.target.id
    probes_ = [(b">a\n", 1), (b">a\r\n", 2), (b">a desc\n", 1), (b">a \n", 1), (b">a\t\r\n", 2), (b">a d \r\n", 2), (b"> a\n", 1)]
    okle, why_le = True, ""
    for pb, want_ in probes_:
        env_ = {lv_: pb, roles["name"]: "", "name": ""}
        res_ = [r for r in _run_paths(hdr_arm, env_, loop_iters=(0,)) if r["path"].status != "raise"]
        vals_ = {repr(r["env"].get(le_var)) for r in res_}
        if not res_ or any(r["env"].get(le_var) is _UNK or isinstance(r["env"].get(le_var), _Opq) or r["env"].get(le_var) is None for r in res_):
            raise AnalysisError(f"{idx.short}: terminator width '{le_var}' is not a foldable function of the header line ({sorted(vals_)})")
        if vals_ != {repr(want_)}:
            okle, why_le = False, f"for the header line {pb!r} the terminator width is {sorted(vals_)}, expected {want_}: the fifth .fai column (bytes per line) is wrong and random access seeks to the wrong byte"
            break
    L.check(okle, "R6", idx.short + ":terminator-width", "2 for CRLF, else 1 (7 probe header lines)", why_le, idx.loc())
    # the record name is the first whitespace-delimited word of the header line (faidx): same constant propagation, more probes
    nm_var = roles["name"]
    name_probes = [(b">a\n", "a"), (b">a desc\n", "a"), (b">chr1\tlen=153\n", "chr1"), (b">s2  two spaces\r\n", "s2"), (b"> a\n", "a"), (b">RAND-001\r\n", "RAND-001"), (b">x\x0bvt\n", "x"), (b">n|1.2 d e f\n", "n|1.2")]
    okn, why_n, n_folded = True, "", 0
    for pb, want_ in name_probes:
        env_ = {lv_: pb, nm_var: "", "name": ""}
        res_ = [r for r in _run_paths(hdr_arm, env_, loop_iters=(0,), stop_at=None) if r["path"].status != "raise"]
        # the name as it is when the header arm has run: take the last store to it on each path
        vals_ = set()
        for r in res_:
            st_ = [v for (t, v, n) in r["stores"] if t == nm_var]
            vals_.add(repr(st_[-1]) if st_ else "<unset>")
            if st_ and (st_[-1] is _UNK or isinstance(st_[-1], _Opq)):
                vals_ = None
                break
        if not res_ or vals_ is None or "<unset>" in vals_:
            raise AnalysisError(f"{idx.short}: record name '{nm_var}' is not a foldable function of the header line {pb!r}")
        n_folded += 1
        if vals_ != {repr(want_)}:
            okn, why_n = False, f"for the header line {pb!r} the record is named {sorted(vals_)}, faidx names it {want_!r} (the first whitespace-delimited word): the first .fai column is wrong, a tab in it breaks the five-column file, and records that differ only in the description are no longer rejected as duplicates (C04)"
            break
    L.check(okn, "R6", idx.short + ":record-name", f"first whitespace-delimited word of the header ({n_folded} probe header lines)", why_n, idx.loc(), witness={"probes": [repr(p_) for p_, _ in name_probes]})
    # fai_row
    fr = info.methods.get("fai_row")
    ok, why = False, "fai_row structure not recognised"
    if fr is not None:
        tup = [n for n in walk_shallow(fr.node) if isinstance(n, ast.Tuple) and all(isinstance(e, ast.Attribute) for e in n.elts) and len(n.elts) == 4]
        rets = [n for n in walk_shallow(fr.node) if isinstance(n, ast.Return)]
        if tup and rets:
            order = [e.attr for e in tup[0].elts]
            r = rets[0].value
            starts_with_name = isinstance(r, ast.JoinedStr) and len(r.values) >= 1 and isinstance(r.values[0], ast.FormattedValue) and is_name(r.values[0].value, fr.params()[1])
            ends_nl = isinstance(r, ast.JoinedStr) and isinstance(r.values[-1], ast.Constant) and r.values[-1].value == "\n"
            ok = order == want and starts_with_name and ends_nl
            why = f".fai row columns are name + {order}; faidx order is name + {want}, newline-terminated"
    L.check(ok, "R6", "FastaInfo.fai_row", "name, length, offset, linebases, linewidth", why, fr.loc() if fr else "")
    # load_index
    li = repo.cls("FastaIndex").methods.get("load_index")
    ok, why = False, "load_index structure not recognised"
    if li is not None:
        unpack = [n for n in walk_shallow(li.node) if isinstance(n, ast.Assign) and isinstance(n.targets[0], ast.Tuple) and len(n.targets[0].elts) == 5]
        ctor = [c for c in walk_shallow(li.node) if isinstance(c, ast.Call) and dotted(c.func) == "FastaInfo"]
        if unpack and ctor:
            names = [e.id for e in unpack[0].targets[0].elts]
            args = [norm(a) for a in ctor[0].args]
            from ..util import local_defs as _ld

            def _is_ctor(v):
                if v is ctor[0]:
                    return True
                if isinstance(v, ast.Name):
                    ds = _ld(li, v.id)
                    return len(ds) == 1 and ds[0] is ctor[0]
                return False

            key = [n for n in walk_shallow(li.node) if isinstance(n, ast.Assign) and isinstance(n.targets[0], ast.Subscript) and _is_ctor(n.value)]
            ok = args == names[1:] and bool(key) and norm(key[0].targets[0].slice) == names[0]
            why = f"loader unpacks {names} and builds FastaInfo({', '.join(args)})"
            # refuted only by columns passed in another order or an entry keyed by another column; anything else is a form the
            # rule does not read
            swapped = args != names[1:] and sorted(args) == sorted(names[1:])
            wrong_key = bool(key) and norm(key[0].targets[0].slice) in names[1:]
            if not ok and not swapped and not wrong_key:
                raise AnalysisError(f"FastaIndex.load_index: how the unpacked .fai columns reach FastaInfo(...) and the index dictionary is not a form understood ({why})")
    if not ok and why == "load_index structure not recognised":
        raise AnalysisError("FastaIndex.load_index: how a .fai line is unpacked and turned into a FastaInfo is not a form understood")
    L.check(ok, "R6", "FastaIndex.load_index", "columns 2..5 passed to FastaInfo in file order, keyed by column 1", why, li.loc() if li else "")
