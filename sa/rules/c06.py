"""C06 — every AGP the tools write is coordinate-valid.

The arithmetic validity of AGP text is a property of format_agp alone, for *any* assembly:
 O1 running position starts at 0 per scaffold        O2 object-begin ≡ p+1     O3 object-end ≡ p+L(row)
 O4 p advances by exactly L(row) per row (=> tiling)   O5 part number ≡ row index + 1 over unfiltered rows
 O6 W rows: component begin/end are row.start/row.end and Fragment.length ≡ end-start+1
 O7 gap rows: 'U', length ≡ L(row), gap type column, linkage 'yes'
 O8 Scaffold.length ≡ Σ L(row)  (last object end = scaffold length)
 O9 every AGP-producing site calls this formatter
"""

from __future__ import annotations

import ast

from ..model import AnalysisError, Func, Repo, dotted, is_name, norm, walk_shallow
from ..report import Ledger
from ..sym import B, Const, Join, Lin, Lookup, Star, State, Str, Sym, SymExec, Tup, as_lin, NotNumeric
from ..fold import try_fold
from ..util import local_defs, names_in

PROP = "C06"
LEVEL = "proof"
EXPLANATION = (
    "format_agp is abstractly interpreted in the affine-equality domain on every path through 0..2 header lines, "
    "0..2 scaffolds and 0..2(3) rows per scaffold with symbolic rows: each written line is recovered as a list of "
    "symbolic columns and compared with the AGP template (begin = 1 + Σ previous row lengths, end = Σ row lengths so far, "
    "part number = index+1, component columns = the row's own fields, gap length = the same L(row) that advances the "
    "running position). Because the loop body is one fixed code sequence and all updates are affine, identical normal "
    "forms for the first rows of the first scaffolds extend to every row of every scaffold (each iteration's effect is the "
    "same affine map up to renaming of the fresh row symbols). Row length definitions (Fragment.length, Scaffold.length) "
    "are summarised symbolically, and a who-may-call rule shows every AGP writer goes through this formatter."
)
LEVEL_NOTE = (
    "Trusted base: the symbolic interpreter (sa/sym.py) and the AGP column template in sa/rules/c06.py. Assumes rows are "
    "Fragment or Gap objects and row lengths >= 1 (enforced for fragments by the constructor; a zero-length gap in a user's "
    "TPF would print an empty p+1..p row — outside 'assemblies the tools build'). The FASTA-record-length clause depends on "
    "seek arithmetic decided under C03 only structurally."
)


class _FmtExec(SymExec):
    def __init__(self, repo, file_param):
        super().__init__(repo, loop_iters=(0, 1, 2))
        self.file_param = file_param

    def call_default(self, st, n, fval, args, kwargs, func, depth):
        if isinstance(n.func, ast.Attribute) and n.func.attr == "write" and is_name(n.func.value, self.file_param):
            st.effects.append(("write", n, args[0] if args else None))
            return Const(None)
        return super().call_default(st, n, fval, args, kwargs, func, depth)


def _lines(effects):
    """Group written values into lines: [ (kind, payload, node) ] where a line is a
    Join('\\t', cols) optionally followed by '\\n', or an f-string/constant."""
    out = []
    cur = None
    for kind, node, v in effects:
        if kind != "write":
            continue
        if isinstance(v, Join):
            if cur is not None:
                out.append(("unterminated", cur, node))
            cur = v
        elif isinstance(v, Const) and v.v == "\n":
            if cur is None:
                out.append(("blank", None, node))
            else:
                out.append(("row", cur, node))
                cur = None
        else:
            if cur is not None:
                out.append(("unterminated", cur, node))
                cur = None
            out.append(("text", v, node))
    if cur is not None:
        out.append(("unterminated", cur, None))
    return out


def _s(v):
    """Unwrap str()."""
    return v.v if isinstance(v, Str) else None


def _plain_sum(e):
    """sum(<v>.length for <v> in self.rows) -> True; the same with a filter / another attribute -> reason; else None"""
    if isinstance(e, ast.Call) and dotted(e.func) == "sum" and e.args and isinstance(e.args[0], ast.GeneratorExp | ast.ListComp) and len(e.args[0].generators) == 1:
        g = e.args[0]
        gen = g.generators[0]
        if isinstance(gen.iter, ast.Call) and isinstance(gen.iter.func, ast.Attribute) and is_name(gen.iter.func.value, "self") and gen.iter.func.attr in ("fragments", "gaps", "idx_fragments") and not gen.iter.args:
            return f"the sum runs over self.{gen.iter.func.attr}() only, not over all rows"
        if norm(gen.iter) != "self.rows" or not isinstance(gen.target, ast.Name):
            return None
        if gen.ifs:
            return f"the sum skips rows ({norm(gen.ifs[0])[:40]})"
        if norm(g.elt) != f"{gen.target.id}.length":
            return f"the sum adds '{norm(g.elt)[:40]}', not the row length"
        if len(e.args) > 1 and try_fold(e.args[1], default=None) not in (0, None):
            return "the sum starts from a non-zero value"
        return True
    return None


def _scaffold_length_form(repo, scf, sl):
    """-> (True, '') plain sum | (False, why) positively refuted | raises AnalysisError for a form that is not understood.
    A memoised length (value kept in an attribute of the scaffold) is refuted when the only thing its validity test looks at is
    the *number* of rows while rows are also replaced one-for-one in place somewhere in the package."""
    rets = [n for n in walk_shallow(sl.node) if isinstance(n, ast.Return)]
    if len(rets) == 1:
        ps = _plain_sum(rets[0].value)
        if ps is True:
            return True, "", sl
        if isinstance(ps, str):
            return False, f"Scaffold.length is not the plain sum of its rows' lengths: {ps}", sl
    # memo forms: the function itself, or a property of the class it reads, keeps a value in an attribute of self
    cands = [sl]
    for n in walk_shallow(sl.node):
        if isinstance(n, ast.Attribute) and is_name(n.value, "self"):
            m = repo.find_method(scf, n.attr)
            if m is not None and m.is_property and m is not sl:
                cands.append(m)
    for m in cands:
        stores = [n for n in walk_shallow(m.node) if isinstance(n, ast.Assign) and any(isinstance(t, ast.Attribute) and is_name(t.value, "self") for t in n.targets)]
        if not stores:
            continue
        attr = next(t.attr for n in stores for t in n.targets if isinstance(t, ast.Attribute) and is_name(t.value, "self"))
        tests = [n.test for n in walk_shallow(m.node) if isinstance(n, ast.If | ast.IfExp | ast.While)]
        rows_mentions = [x for t in tests for x in ast.walk(t) if isinstance(x, ast.Attribute) and norm(x) == "self.rows"]
        local_rows = {n.targets[0].id for n in walk_shallow(m.node) if isinstance(n, ast.Assign) and isinstance(n.targets[0], ast.Name) and norm(n.value) == "self.rows"}
        rows_mentions += [x for t in tests for x in ast.walk(t) if isinstance(x, ast.Name) and x.id in local_rows]
        only_len = all(isinstance(getattr(x, "_parent", None), ast.Call) and dotted(x._parent.func) == "len" for x in rows_mentions)
        if not only_len:
            raise AnalysisError(f"{m.short}: the scaffold length is memoised in self.{attr} and the memo is validated against the rows themselves: whether it can be stale is not decided")
        # the memo is valid as long as the row count is unchanged: look for one-for-one replacement of a row
        repl = []
        for g in repo.functions.values():
            for n in walk_shallow(g.node):
                if isinstance(n, ast.Assign):
                    for t in n.targets:
                        if isinstance(t, ast.Subscript) and isinstance(t.value, ast.Attribute) and t.value.attr == "rows" and not isinstance(t.slice, ast.Slice):
                            # does the same function drop the memo?
                            drops = any(isinstance(x, ast.Assign) and any(isinstance(tt, ast.Attribute) and tt.attr == attr for tt in x.targets) for x in walk_shallow(g.node))
                            if not drops:
                                repl.append((g, n))
        if repl:
            g, n = repl[0]
            return False, (
                f"Scaffold.length is memoised in self.{attr} by {m.short} and reused while the number of rows is unchanged, but {g.short} replaces a row in place "
                f"('{norm(n)[:50]}', {g.loc(n)}) without dropping the memo: after a fragment is cut the scaffold still reports its old length, so the last object end of the AGP no longer equals it"
            ), m
        raise AnalysisError(f"{m.short}: the scaffold length is memoised in self.{attr}; no in-place row replacement found, staleness not decided")
    raise AnalysisError(f"{sl.short}: how the scaffold length is computed is not a form understood (plain sum over self.rows, or a memo of it)")


def _filtered_row_loop(fmt):
    """a loop of the formatter over `<x>.rows` seen through a filter (comprehension with `if`, filter()): rows are skipped"""
    for lp in [n for n in walk_shallow(fmt.node) if isinstance(n, ast.For)]:
        it = lp.iter
        if isinstance(it, ast.Call) and dotted(it.func) in ("enumerate", "iter", "list", "tuple") and it.args:
            it = it.args[0]
        if isinstance(it, ast.GeneratorExp | ast.ListComp) and len(it.generators) == 1 and norm(it.generators[0].iter).endswith(".rows") and it.generators[0].ifs:
            return lp, f"only rows with '{norm(it.generators[0].ifs[0])[:40]}'"
        if isinstance(it, ast.Call) and dotted(it.func) == "filter" and len(it.args) == 2 and norm(it.args[1]).endswith(".rows"):
            return lp, f"rows passed through filter({norm(it.args[0])[:30]}, ...)"
    return None


def run(repo: Repo, L: Ledger, tier: str):
    for rid, txt in {
        "O1": "p == 0 at the first row of every scaffold", "O2": "object begin == p + 1", "O3": "object end == p + L(row)",
        "O4": "p advances by L(row) exactly once per row", "O5": "part number == index + 1, rows unfiltered",
        "O6": "W rows carry row.name/start/end/strand; Fragment.length == end - start + 1",
        "O7": "gap rows: U, L(row), gap_type, yes", "O8": "Scaffold.length == Σ row.length", "O9": "single AGP writer",
    }.items():
        L.rule(rid, txt)

    fmt = repo.try_func("format_agp", "tola.assembly.format")
    if fmt is not None and _filtered_row_loop(fmt):
        lp_, what_ = _filtered_row_loop(fmt)
        L.rule("O5", "part number == index + 1, rows unfiltered")
        L.fail("O5", f"{fmt.short}:rows", f"the formatter writes {what_}: the skipped rows leave holes in the object coordinates (the running position is advanced only for written rows, or not at all)", fmt.loc(lp_))
        return
    if fmt is None:
        raise AnalysisError("anchor format.format_agp vanished")
    ps = fmt.params()
    ex = _FmtExec(repo, ps[1])
    st = State()
    finals = ex.run_function(fmt, st, {ps[0]: Sym("asm"), ps[1]: Sym("file")})
    if not finals:
        raise AnalysisError("format_agp has no completing path")
    if tier == "thorough":
        # deeper: one scaffold with 0..5 rows (364 row-kind sequences) in addition to the 2x2 grid above
        def deep(loop):
            it = norm(loop.iter)
            if "rows" in it:
                return (0, 1, 2, 3, 4, 5)
            if "scaffolds" in it:
                return (1,)
            return (0,)

        ex2 = _FmtExec(repo, ps[1])
        ex2.per_loop = deep
        finals = finals + ex2.run_function(fmt, State(), {ps[0]: Sym("asm"), ps[1]: Sym("file")})

    n_rows = 0
    n_paths = 0
    fails = {}

    def bad(rule, inst, msg, node):
        fails.setdefault((rule, inst), (msg, node))

    strand_tbl = None
    for r in finals:
        n_paths += 1
        lines = _lines(r.effects)
        # group rows by scaffold: the scaffold symbol is the first column
        per_scaffold = {}
        order = []
        for kind, payload, node in lines:
            if kind in ("unterminated", "row") and isinstance(payload, Join):
                # the column rules read a flat list of atomic column values; a column that is itself assembled text (an
                # f-string holding several columns, a memoised tail, a concatenation that may end in the terminator) is a
                # different way of writing the line, not a malformed line
                its_ = payload.items.items if isinstance(payload.items, Tup) else None
                if its_ is not None:
                    for it_ in its_:
                        atomic = (
                            (isinstance(it_, Const) and isinstance(it_.v, str) and "\t" not in it_.v and "\n" not in it_.v)
                            or isinstance(it_, Str | Lin)
                            or (isinstance(it_, Sym) and not it_.name.startswith("call:"))
                            or type(it_).__name__ in ("Lookup", "Star")
                        )
                        if not atomic:
                            raise AnalysisError(f"{fmt.short}: a column of the written line is assembled text ({repr(it_)[:80]}): the line is not written as a flat list of column values — form not understood")
            if kind == "unterminated":
                bad("O5", "line", "a row is written without its line terminator", node)
                continue
            if kind == "blank":
                bad("O5", "line", "an empty line is written between rows", node)
                continue
            if kind == "text":
                continue
            cols = payload.items
            if not isinstance(cols, Tup) or payload.sep != "\t":
                bad("O5", "line", f"row is not a tab-joined column list: {payload!r}", node)
                continue
            c = cols.items
            key = repr(c[0]) if c else "?"
            if key not in per_scaffold:
                per_scaffold[key] = []
                order.append(key)
            per_scaffold[key].append((c, node))
        for key in order:
            p = Lin.const(0)
            for j, (c, node) in enumerate(per_scaffold[key]):
                n_rows += 1
                if len(c) < 9:
                    bad("O5", "columns", f"row has {len(c)} columns, AGP needs 9", node)
                    continue
                # the row symbol: asm.scaffolds[a].rows[j]
                rowsym = None
                for cand in c[4:9]:
                    inner = _s(cand) if _s(cand) is not None else cand
                    if isinstance(inner, Sym) and ".rows[" in inner.name:
                        rowsym = inner.name.rsplit(".", 1)[0]
                        break
                    if isinstance(inner, Lin):
                        for a in inner.t:
                            if isinstance(a, str) and ".rows[" in a:
                                rowsym = a.rsplit(".", 1)[0]
                if rowsym is None:
                    raise AnalysisError(f"{fmt.short}: cannot relate the written row to a row of the scaffold (columns come through a helper or an intermediate structure): form not understood")
                    continue
                if not rowsym.endswith(f".rows[{j}]"):
                    bad("O5", "unfiltered", f"line {j + 1} of the object describes {rowsym}: rows are skipped or reordered", node)
                Lr = Lin.atom(f"{rowsym}.length")
                if not (isinstance(c[0], Sym) and c[0].name.endswith(".name") and rowsym.startswith(c[0].name.rsplit(".", 1)[0])):
                    bad("O2", "object", f"object column is {c[0]!r}, not the name of the scaffold that owns the row", node)
                beg, end, part = _s(c[1]), _s(c[2]), _s(c[3])
                try:
                    if beg is None or as_lin(beg) != p + 1:
                        bad("O2" if j else "O1", "begin", f"object begin of row {j + 1} is {beg!r}; expected 1 + Σ lengths of the previous rows = {p + 1}", node)
                    if end is None or as_lin(end) != p + Lr:
                        bad("O3", "end", f"object end of row {j + 1} is {end!r}; expected {p + Lr}", node)
                    if part is None or as_lin(part) != Lin.const(j + 1):
                        bad("O5", "part", f"part number of row {j + 1} is {part!r}", node)
                except NotNumeric:
                    bad("O2", "begin", f"object span columns are not integer forms: {c[1]!r}, {c[2]!r}", node)
                p = p + Lr
                typ = c[4]
                if isinstance(typ, Const) and typ.v in ("U", "N"):
                    if typ.v != "U":
                        bad("O7", "type", f"gap component type is {typ.v!r}, expected 'U'", node)
                    gl = _s(c[5])
                    try:
                        if gl is None or as_lin(gl) != Lr:
                            bad("O7", "length", f"gap length column is {c[5]!r}, but the object span advances by {Lr}", node)
                    except NotNumeric:
                        bad("O7", "length", f"gap length column is {c[5]!r}", node)
                    gt = _s(c[6]) if _s(c[6]) is not None else c[6]
                    if not (isinstance(gt, Sym) and gt.name == f"{rowsym}.gap_type"):
                        bad("O7", "gap_type", f"gap type column is {c[6]!r}, expected the row's gap_type", node)
                    if not (isinstance(c[7], Const) and c[7].v == "yes"):
                        bad("O7", "linkage", f"linkage column is {c[7]!r}, expected 'yes'", node)
                    if len(c) != 9:
                        bad("O7", "columns", f"gap row has {len(c)} columns", node)
                elif isinstance(typ, Const) and typ.v == "W":
                    nm = c[5]
                    if not (isinstance(nm, Sym) and nm.name == f"{rowsym}.name"):
                        bad("O6", "name", f"component id column is {nm!r}, expected the row's name", node)
                    cs, ce = _s(c[6]), _s(c[7])
                    if not (isinstance(cs, Sym) and cs.name == f"{rowsym}.start"):
                        bad("O6", "start", f"component begin column is {c[6]!r}, expected str(row.start)", node)
                    if not (isinstance(ce, Sym) and ce.name == f"{rowsym}.end"):
                        bad("O6", "end", f"component end column is {c[7]!r}, expected str(row.end)", node)
                    sc = c[8]
                    if not (isinstance(sc, Lookup) and isinstance(sc.idx, Sym) and sc.idx.name == f"{rowsym}.strand"):
                        bad("O6", "strand", f"orientation column is {sc!r}, expected a table lookup by row.strand", node)
                    tail = c[9:]
                    if tail and not (len(tail) == 1 and isinstance(tail[0], Star) and isinstance(tail[0].v, Sym) and tail[0].v.name == f"{rowsym}.tags"):
                        bad("O6", "tags", f"extra columns {tail!r} are not the row's tags", node)
                else:
                    bad("O7", "type", f"component type column is {typ!r}", node)
    L.extra["paths"] = n_paths
    L.extra["rows_checked"] = n_rows
    L.floor("O2", "symbolic rows checked", n_rows, 50)
    for rid in ("O1", "O2", "O3", "O5", "O6", "O7"):
        hits = [(k, v) for k, v in fails.items() if k[0] == rid]
        if hits:
            for (rule, inst), (msg, node) in hits:
                L.fail(rule, f"{fmt.short}:{inst}", msg, fmt.loc(node) if node is not None else fmt.loc())
        else:
            L.ok(rid, fmt.short, f"holds on all {n_rows} symbolic rows of {n_paths} paths", fmt.loc())
    # O4 is the conjunction of O2/O3 across consecutive rows (the expected p is recomputed from L(row))
    o4 = not any(k[0] in ("O1", "O2", "O3") for k in fails)
    L.check(o4, "O4", fmt.short, "begin(row j+1) == end(row j) + 1 for consecutive symbolic rows; first begin == 1", "running position does not advance by exactly L(row) per row (see O2/O3)", fmt.loc())

    # strand table used by the writer: covered by C05.T1; here only that it is total on {0,1,-1}
    # ---- O6b / O8: length definitions
    frag = repo.cls("Fragment")
    ex2 = SymExec(repo)
    f = Sym("f", frag)
    st2 = State()
    ln = ex2.get_attr(st2, f, "length", None, None)
    s_ = ex2.get_attr(st2, f, "start", None, None)
    e_ = ex2.get_attr(st2, f, "end", None, None)
    try:
        ok = as_lin(ln) == as_lin(e_) - as_lin(s_) + 1
    except NotNumeric:
        ok = False
    L.check(ok, "O6", "Fragment.length", "length == end - start + 1 (object span == component span)", f"Fragment.length is {ln!r}; the AGP object span of a W row would differ from its component span end - start + 1", repo.find_method(frag, "length").loc())
    gap = repo.cls("Gap")
    gl = repo.find_method(gap, "length")
    L.check(gl is not None and gl.is_property, "O7", "Gap.length", "gap length is a stored field", "Gap.length vanished", gap.module.relpath)
    scf = repo.cls("Scaffold")
    sl = repo.find_method(scf, "length")
    if sl is None:
        raise AnalysisError("anchor Scaffold.length vanished")
    verdict, why8, at8 = _scaffold_length_form(repo, scf, sl)
    L.check(verdict, "O8", "Scaffold.length", "Σ row.length over all rows: last object end == scaffold length", why8, at8.loc())
    # row iteration is over the unfiltered rows list, header lines do not interleave
    loops = [n for n in walk_shallow(fmt.node) if isinstance(n, ast.For)]
    # the loop that writes the rows: loops over rows that only inspect them (validation before writing) are not it
    write_names = {"write", "writelines"} | {t.id for n in walk_shallow(fmt.node) if isinstance(n, ast.Assign) and isinstance(n.value, ast.Attribute) and n.value.attr == "write" for t in n.targets if isinstance(t, ast.Name)}

    def _writes(loop):
        return any(isinstance(c, ast.Call) and ((isinstance(c.func, ast.Attribute) and c.func.attr in ("write", "writelines", "append", "extend")) or (isinstance(c.func, ast.Name) and c.func.id in write_names) or dotted(c.func) == "print") for c in ast.walk(loop))

    all_row_loops = [l for l in loops if "rows" in norm(l.iter)]
    row_loops = [l for l in all_row_loops if _writes(l)] or all_row_loops
    if not row_loops:
        raise AnalysisError(f"{fmt.short}: no loop over a scaffold's rows in the formatter itself (rows are produced by a helper): form not understood")
    if len(row_loops) != 1:
        raise AnalysisError(f"{fmt.short}: {len(row_loops)} loops over rows write output: which one produces the AGP lines is not understood")
    it = row_loops[0].iter
    inner_ = it.args[0] if isinstance(it, ast.Call) and dotted(it.func) in ("enumerate", "zip", "list", "iter") and it.args else it
    # enumerate(<scaffold>.rows[, k]) or a plain loop over <scaffold>.rows (part counter checked symbolically above)
    ok5 = isinstance(inner_, ast.Attribute) and inner_.attr == "rows"
    if not ok5:
        # refuted only by an iterable that is known to drop or reorder rows
        lossy = (
            (isinstance(inner_, ast.Call) and isinstance(inner_.func, ast.Name) and inner_.func.id in ("filter", "reversed", "sorted"))
            or (isinstance(inner_, ast.Subscript) and isinstance(inner_.slice, ast.Slice) and isinstance(inner_.value, ast.Attribute) and inner_.value.attr == "rows" and any(x is not None for x in (inner_.slice.lower, inner_.slice.upper, inner_.slice.step)))
            or (isinstance(inner_, ast.ListComp | ast.GeneratorExp) and any(g.ifs for g in inner_.generators))
        )
        if not lossy:
            # rows come through a helper (scffld.placed_rows(), a generator ...) the column rules cannot see through
            raise AnalysisError(f"{fmt.short}: the row loop iterates over '{norm(it)[:50]}', which is not the scaffold's rows list itself: form not understood")
    L.check(ok5, "O5", f"{fmt.short}:rows", "rows iterated unfiltered, in order", f"row loop iterates over '{norm(it)}' (must be the scaffold's rows, unfiltered)", fmt.loc())

    # ---- O9 single writer
    callers = repo.callers_of(fmt)
    L.floor("O9", "call sites of format_agp", len(callers), 3)
    for c, call in callers:
        L.ok("O9", f"{c.short} -> format_agp", "AGP written through the formatter", c.loc(call))
    # any handle opened on an .agp-named path is only ever handed to format_agp
    n_h = 0
    for fn in repo.functions.values():
        agp_paths = set()
        for n in walk_shallow(fn.node):
            if isinstance(n, ast.Assign) and len(n.targets) == 1 and isinstance(n.targets[0], ast.Name | ast.Attribute):
                if any(isinstance(x, ast.Constant) and isinstance(x.value, str) and x.value.lower().endswith(".agp") for x in ast.walk(n.value)):
                    agp_paths.add(norm(n.targets[0]))
        # self.agp_file defined in __init__ of the same class
        if fn.cls is not None:
            init = fn.cls.methods.get("__init__")
            if init is not None:
                for n in walk_shallow(init.node):
                    if isinstance(n, ast.Assign) and any(isinstance(x, ast.Constant) and isinstance(x.value, str) and x.value.lower().endswith(".agp") for x in ast.walk(n.value)):
                        agp_paths.add(norm(n.targets[0]))
        if not agp_paths:
            continue
        # path variables derived from an AGP path (temporary siblings, with_suffix results ...)
        grew = True
        while grew:
            grew = False
            for n in walk_shallow(fn.node):
                if isinstance(n, ast.Assign) and len(n.targets) == 1 and isinstance(n.targets[0], ast.Name) and norm(n.targets[0]) not in agp_paths:
                    if any(norm(x) in agp_paths for x in ast.walk(n.value) if isinstance(x, ast.Name | ast.Attribute)) and not _opens(repo, fn, n.value):
                        agp_paths.add(n.targets[0].id)
                        grew = True
        handles = set()
        for n in walk_shallow(fn.node):
            val = tgt = None
            if isinstance(n, ast.Assign) and len(n.targets) == 1:
                val, tgt = n.value, n.targets[0]
            elif isinstance(n, ast.withitem) and n.optional_vars is not None:
                val, tgt = n.context_expr, n.optional_vars
            if val is not None and isinstance(val, ast.Call) and isinstance(tgt, ast.Name):
                opens_agp = any(norm(x) in agp_paths for x in ast.walk(val) if isinstance(x, ast.Name | ast.Attribute))
                if opens_agp and _opens(repo, fn, val) == "w":
                    handles.add(tgt.id)
        for h in handles:
            n_h += 1
            uses = [n for n in walk_shallow(fn.node) if isinstance(n, ast.Name) and n.id == h and isinstance(n.ctx, ast.Load)]
            okh = True
            for u in uses:
                par = getattr(u, "_parent", None)
                if isinstance(par, ast.Call) and dotted(par.func) == fmt.name and u in par.args:
                    continue
                if isinstance(par, ast.Attribute) and par.attr in ("close", "flush", "name"):
                    continue
                # handed to a local (nested) writer function whose only use of it is the formatter call
                if isinstance(par, ast.Call) and isinstance(par.func, ast.Name) and par.func.id in fn.nested and u in par.args:
                    inner = fn.nested[par.func.id]
                    pidx = par.args.index(u)
                    ips = inner.params()
                    if pidx < len(ips):
                        pn = ips[pidx]
                        iuses = [x for x in walk_shallow(inner.node) if isinstance(x, ast.Name) and x.id == pn and isinstance(x.ctx, ast.Load)]
                        if iuses and all(isinstance(getattr(x, "_parent", None), ast.Call) and dotted(x._parent.func) == fmt.name and x in x._parent.args for x in iuses):
                            continue
                # h.write(<text>) where the text was rendered by the formatter (directly or through a helper that calls it)
                gp = getattr(par, "_parent", None)
                if isinstance(par, ast.Attribute) and par.attr == "write" and isinstance(gp, ast.Call) and gp.args:
                    via_fmt = False
                    for c_ in [x for x in ast.walk(gp.args[0]) if isinstance(x, ast.Call)]:
                        tg_, _, _ = repo.resolve_call(c_, fn)
                        for t_ in tg_:
                            if t_ is fmt or fmt.qualname in repo.reachable_from([t_]):
                                via_fmt = True
                    if via_fmt:
                        continue
                    if not any(isinstance(x, ast.Call) for x in ast.walk(gp.args[0])) and not any(isinstance(x, ast.Name) and local_defs(fn, x.id) and any(isinstance(y, ast.Call) for d_ in local_defs(fn, x.id) for y in ast.walk(d_)) for x in ast.walk(gp.args[0])):
                        okh = False
                        L.fail("O9", f"{fn.short}:{h}", f"AGP file handle '{h}' is written with text assembled in place ('{norm(gp)[:60]}'), not by format_agp: the coordinate guarantees of the formatter do not cover this file", fn.loc(u))
                        continue
                    raise AnalysisError(f"{fn.short}: AGP file handle '{h}' is written with '{norm(gp)[:60]}': where that text comes from is not understood")
                okh = False
                L.fail("O9", f"{fn.short}:{h}", f"AGP file handle '{h}' is used outside format_agp: {norm(par)[:80]}", fn.loc(u))
            if okh:
                L.ok("O9", f"{fn.short}:{h}", "AGP handle only handed to format_agp", fn.loc())
    # a handle opened in place as the formatter's file argument (no variable in between): format_agp(asm, open_for_writing(<x>.agp))
    for fn in repo.functions.values():
        for c in repo.calls_in(fn):
            if dotted(c.func) == fmt.name and len(c.args) >= 2 and isinstance(c.args[1], ast.Call):
                if any(isinstance(x, ast.Constant) and isinstance(x.value, str) and x.value.lower().endswith(".agp") for x in ast.walk(c.args[1])) and _opens(repo, fn, c.args[1]) == "w":
                    n_h += 1
                    L.ok("O9", f"{fn.short}:<handle opened in the call>", "AGP handle only handed to format_agp", fn.loc(c))
    L.floor("O9", "AGP output handles", n_h, 1)
    L.assume("rows are Fragment or Gap objects with length >= 1")


def _opens(repo, fn, val):
    """'w' / 'r' when the call opens a file (directly or through a repo function that returns an
    open() result), else None."""
    if not isinstance(val, ast.Call):
        return None
    if isinstance(val.func, ast.Attribute) and val.func.attr == "open":
        m = val.args[0] if val.args else None
        if m is None:
            return "r"
        from ..fold import try_fold

        c = try_fold(m, default="w")
        return "w" if any(ch in c for ch in "wax+") else "r"
    if dotted(val.func) == "open":
        m = val.args[1] if len(val.args) > 1 else None
        return "w" if m is not None else "r"
    targets, _, _ = repo.resolve_call(val, fn)
    for t in targets:
        for r in walk_shallow(t.node):
            if isinstance(r, ast.Return) and r.value is not None:
                rv = r.value
                if isinstance(rv, ast.Name):
                    from ..util import local_defs

                    for d in local_defs(t, rv.id):
                        if isinstance(d, ast.Call) and isinstance(d.func, ast.Attribute) and d.func.attr == "open":
                            return "w"
                elif isinstance(rv, ast.Call) and isinstance(rv.func, ast.Attribute) and rv.func.attr == "open":
                    return "w"
    return None
