"""C18 — overlap results keep span and content consistent under every edit sequence.

Invariant I:  end - start + 1 == Σ L(rows).
 R1 every path of every mutating method of OverlapResult preserves I (=> holds after every finite sequence)
 R2 strand-aware cut: span moves exactly to the bait, fragment coordinates move by the same amount on the
    strand-correct side, name/strand kept, new fragment inside the old one
 R3 only terminal rows change (pop at an end / replacement of a terminal row identified by identity)
 R4 every end removal is followed by stripping of terminal gaps with an emptiness guard
 R5 derived figures == plain interval arithmetic (affine identities + order regions for the bait overlaps)
 R6 what-if figures == the figure after actually doing the removal
"""

from __future__ import annotations

import ast

from ..model import AnalysisError, Func, Repo, dotted, is_name, norm, walk_shallow
from ..report import Ledger
from ..sym import B, Const, GhostList, Lin, State, Sym, SymExec, Tup, as_lin, b_not, cmp_lin, deep_subst, NotNumeric
from ..util import paths
from ..zones import Region, Summary, Undecided, enumerate_regions

PROP = "C18"
LEVEL = "other"
EXPLANATION = (
    "Every method of OverlapResult that writes rows/start/end (discovered from the AST, plus methods that call them) "
    "is abstractly interpreted path by path in the affine-equality domain with a ghost sum ΣL(rows): pop(0)/pop(-1) "
    "subtract the popped row's symbolic length, replacement of a terminal row identified by an `is` fact swaps lengths, "
    "span fields are affine cells. On every non-raising path (end - start + 1) - ΣL(rows) is unchanged as a normal form, so "
    "the invariant survives every finite operation sequence (loops: 0..2(3) unrollings with fresh symbols per iteration; the "
    "per-iteration effect is an affine map independent of the iteration count). The cut's strand-aware arithmetic, the "
    "terminal-only mutation discipline, the gap-stripping pairing, the derived figures (affine identities; bait overlaps "
    "on all order regions of bait/span/row endpoints) and what-if == do are decided on the same summaries."
)


def fresh_state(ovr_cls, frag_cls):
    st = State()
    st.heap[("self", "rows")] = GhostList("rows")
    st.heap[("self", "start")] = Lin.atom("S")
    st.heap[("self", "end")] = Lin.atom("E")
    st.heap[("self", "bait")] = Sym("bait", frag_cls)
    return st, Sym("self", ovr_cls)


def Q(st):
    g = st.heap[("self", "rows")]
    return as_lin(st.heap[("self", "end")]) - as_lin(st.heap[("self", "start")]) + 1 - g.total


def mutators(repo: Repo, cls):
    """Methods of cls (own, not inherited) that directly write start/end or mutate rows."""
    direct = {}
    for name, m in cls.methods.items():
        if name.startswith("__") or m.is_property:
            continue
        writes = []
        for n in walk_shallow(m.node):
            tg = []
            if isinstance(n, ast.Assign):
                tg = n.targets
            elif isinstance(n, ast.AugAssign):
                tg = [n.target]
            elif isinstance(n, ast.Delete):
                tg = n.targets
            for t in tg:
                for x in ast.walk(t):
                    if isinstance(x, ast.Attribute) and is_name(x.value, "self") and x.attr in ("start", "end", "rows") and isinstance(x.ctx, ast.Store | ast.Del):
                        writes.append(norm(n))
                    if isinstance(x, ast.Subscript) and norm(x.value) == "self.rows" and isinstance(x.ctx, ast.Store | ast.Del):
                        writes.append(norm(n))
            if isinstance(n, ast.Call) and isinstance(n.func, ast.Attribute) and norm(n.func.value) == "self.rows" and n.func.attr in ("pop", "append", "extend", "insert", "remove", "clear", "sort", "reverse"):
                writes.append(norm(n))
        if writes:
            direct[name] = m
    # transitive: methods calling a mutator on self
    allm = dict(direct)
    changed = True
    while changed:
        changed = False
        for name, m in cls.methods.items():
            if name in allm or name.startswith("__") or m.is_property:
                continue
            for c in repo.calls_in(m):
                if isinstance(c.func, ast.Attribute) and is_name(c.func.value, "self") and c.func.attr in allm:
                    allm[name] = m
                    changed = True
                    break
    return direct, allm


def arg_syms(m: Func, frag_cls):
    out = {}
    for p in m.params()[1:]:
        ann = None
        for a in m.node.args.args:
            if a.arg == p and a.annotation is not None:
                ann = dotted(a.annotation)
        if ann == "Fragment" or p in ("trim", "frag", "fragment"):
            out[p] = Sym(p, frag_cls)
        elif p.startswith("keep"):
            out[p] = Sym(p)
        else:
            out[p] = Lin.atom(p)
    return out


def run(repo: Repo, L: Ledger, tier: str):
    L.rule("R1", "Δ[(end-start+1) - ΣL(rows)] == 0 on every non-raising path of every mutator")
    L.rule("R2", "trim_fragment: span end moved == bait end; fragment moved by the same amount on the strand-correct side")
    L.rule("R3", "rows mutated only by pop(0)/pop(-1)/terminal replacement under an identity fact")
    L.rule("R4", "end removal followed by guarded terminal-gap stripping")
    L.rule("R5", "derived figures == interval arithmetic")
    L.rule("R6", "what-if overhang == overhang after the removal")

    ovr = repo.cls("OverlapResult")
    frag = repo.cls("Fragment")
    direct, allm = mutators(repo, ovr)
    L.floor("R1", "mutating methods of OverlapResult", len(allm), 3)
    iters = (0, 1, 2, 3) if tier == "thorough" else (0, 1, 2)

    n_paths = 0
    summaries = {}
    for name, m in sorted(allm.items()):
        ex = SymExec(repo, loop_iters=iters)
        finals = []
        for consts in _const_param_valuations(repo, m):
            st, selfv = fresh_state(ovr, frag)
            q0 = Q(st)
            args = {m.params()[0]: selfv, **arg_syms(m, frag), **{k: Lin.const(v) for k, v in consts.items()}}
            finals.extend(ex.run_function(m, st, args))
        if not finals:
            raise AnalysisError(f"{m.short}: no completing path")
        summaries[name] = (m, finals, ex)
        # internal helpers (called only by other methods of the class) may leave the span to their callers:
        # they are covered through inlining in those callers
        callers_ = [f for f, c in repo.callers_of(m) if isinstance(c.func, ast.Attribute) and c.func.attr == m.name]
        internal_only = bool(callers_) and all(f.cls is ovr for f in callers_) and name not in ("discard_start", "discard_end", "trim_fragment", "trim_large_overhangs")
        if internal_only:
            L.ok("R1", m.short, "internal helper: invariant checked through its callers (inlined)", m.loc())
            continue
        bad = None
        for r in finals:
            n_paths += 1
            if not isinstance(r.heap.get(("self", "rows")), GhostList):
                raise AnalysisError(f"{m.short}: self.rows is rebound to a value outside the list model: no verdict")
            try:
                d = Q(r) - q0
            except NotNumeric:
                raise AnalysisError(f"{m.short}: span fields are not integer forms on a path")
            if any("?" in str(a) for a in d.t):
                raise AnalysisError(f"{m.short}: rows are mutated by an operation outside the list model (no verdict): {[op for op, *_ in r.heap[('self', 'rows')].log if op.endswith('?')]}")
            elif not d.is_zero():
                bad = bad or (r, d, "span and rows drift apart")
        if bad:
            r, d, why = bad
            g = r.heap[("self", "rows")]
            L.fail(
                "R1", m.short,
                f"{why}: on a path (end - start + 1) - Σ row lengths changes by {d}; start' = {r.heap[('self', 'start')]}, end' = {r.heap[('self', 'end')]}, ΣL' = {g.total}",
                m.loc(), path=r.path.describe() if r.path else None,
            )
        else:
            L.ok("R1", m.short, f"invariant preserved on all {len(finals)} paths", m.loc())
        # R3
        bad3 = None
        for r in finals:
            g = r.heap[("self", "rows")]
            for op, i, old, new, node in g.log:
                if op.endswith("?"):
                    raise AnalysisError(f"{m.short}: list operation '{op}' outside the model (no verdict)")
                if op not in ("pop", "store"):
                    bad3 = bad3 or (op, node)
            if not isinstance(r.heap[("self", "rows")], GhostList):
                bad3 = bad3 or ("rebound", None)
        for n in walk_shallow(m.node):
            if isinstance(n, ast.Assign) and any(norm(t) == "self.rows" for t in n.targets):
                bad3 = bad3 or ("rows rebound", n)
        if name in direct:
            L.check(bad3 is None, "R3", m.short, "only terminal pops / terminal replacement", f"rows mutated by a non-terminal operation ({bad3[0] if bad3 else ''})", m.loc(bad3[1]) if bad3 and bad3[1] is not None else m.loc())
    L.extra["paths"] = n_paths

    _ownership(repo, L, ovr)
    _r2(repo, L, ovr, frag, summaries)
    _r4(repo, L, ovr, direct)
    _r5(repo, L, ovr, frag, tier)
    _r6(repo, L, ovr, frag, iters)
    L.assume("the same Fragment object does not occur twice in one rows list (rows[0] is x and rows[-1] is x => single row)")
    L.assume("row lengths are integers >= 1")


# ------------------------------------------------------------------------------ R2


def _strand_set(pc, atom):
    """Subset of {1, -1, 0} allowed by the path condition for the strand atom."""
    allowed = {1, -1, 0}
    for f in pc:
        for v in list(allowed):
            try:
                fv = deep_subst(f, {atom: Lin.const(v)})
            except Exception:
                continue
            if fv.kind == "const" and not fv.a:
                allowed.discard(v)
    return allowed


def _r2(repo, L, ovr, frag, summaries):
    cut = None
    for name, (m, finals, ex) in summaries.items():
        # the cut = the mutator that constructs a Fragment and stores it into rows
        if any(isinstance(n, ast.Call) and dotted(n.func) == "Fragment" for n in walk_shallow(m.node)):
            cut = (m, finals, ex)
    if cut is None:
        raise AnalysisError("the cutting mutator (constructs a Fragment) was not found in OverlapResult")
    m, finals, ex = cut
    trim_p = [p for p in m.params()[1:] if p in ("trim", "frag", "fragment")] or [m.params()[1]]
    tp = trim_p[0]
    S0, E0 = Lin.atom("S"), Lin.atom("E")
    bs, be = Lin.atom("bait._start"), Lin.atom("bait._end")
    ts, te, tstr = Lin.atom(f"{tp}._start"), Lin.atom(f"{tp}._end"), f"{tp}._strand"
    n_ok = 0
    fails = []
    seen_trim = {"start+": 0, "start-": 0, "end+": 0, "end-": 0}
    for r in finals:
        new = r.ret
        if not (isinstance(new, Sym) and new.cls is not None and new.cls.qualname == frag.qualname):
            fails.append((r, f"returns {new!r}, not the newly cut Fragment"))
            continue
        hs = {k[1]: v for k, v in r.heap.items() if k[0] == new.name}
        try:
            ns, ne = as_lin(hs["_start"]), as_lin(hs["_end"])
        except (KeyError, NotNumeric):
            raise AnalysisError(f"{m.short}: the coordinates of the new fragment are not linear integer forms on a path: no verdict")
        S1, E1 = as_lin(r.heap[("self", "start")]), as_lin(r.heap[("self", "end")])
        dS, dE = S1 - S0, E0 - E1
        # (a) span moves exactly onto the bait
        if not dS.is_zero() and S1 != bs:
            fails.append((r, f"span start moved to {S1}, not to the bait start"))
        if not dE.is_zero() and E1 != be:
            fails.append((r, f"span end moved to {E1}, not to the bait end"))
        # only shrink: the overhang moved must be known positive on the path
        for d, nm in ((dS, "start"), (dE, "end")):
            if not d.is_zero():
                pos = cmp_lin(">", d, Lin.const(0))
                if pos not in r.pc:
                    fails.append((r, f"span {nm} is moved by {d} without a test that this overhang is positive"))
        # (d) name / strand kept
        nm_v, st_v = hs.get("_name"), hs.get("_strand")
        from ..sym import Str

        while isinstance(nm_v, Str):
            nm_v = nm_v.v
        if not (isinstance(nm_v, Sym) and nm_v.name == f"{tp}._name"):
            fails.append((r, f"cut fragment is named {nm_v!r}, not after the contig it was cut from"))
        try:
            if as_lin(st_v) != Lin.atom(tstr):
                fails.append((r, f"cut fragment's strand is {st_v!r}"))
        except NotNumeric:
            fails.append((r, f"cut fragment's strand is {st_v!r}"))
        # (c) strand-aware side
        strands = _strand_set(r.pc, tstr)
        moved = not dS.is_zero() or not dE.is_zero()
        plus_form = (ns == ts + dS) and (ne == te - dE)
        minus_form = (ne == te - dS) and (ns == ts + dE)
        if not moved:
            if not (ns == ts and ne == te):
                fails.append((r, f"nothing trimmed but the fragment becomes {ns}..{ne}"))
        elif strands == {1}:
            if not plus_form:
                fails.append((r, f"forward contig: scaffold-left trim {dS} / right trim {dE} must move start/end; got start'={ns}, end'={ne}"))
        elif 1 not in strands:
            if not minus_form:
                fails.append((r, f"reverse contig: scaffold-left trim {dS} must lower the contig END and right trim {dE} raise the START; got start'={ns}, end'={ne}"))
        else:
            if not (plus_form and minus_form):
                fails.append((r, f"one arithmetic applied to strands {sorted(strands)}: start'={ns}, end'={ne}"))
        if not dS.is_zero():
            seen_trim["start+" if strands == {1} else "start-"] += 1
        if not dE.is_zero():
            seen_trim["end+" if strands == {1} else "end-"] += 1
        n_ok += 1
    if fails:
        r, msg = fails[0]
        L.fail("R2", m.short, f"{msg} ({len(fails)} failing path facts)", m.loc(), path=r.path.describe() if r.path else None)
    else:
        L.ok("R2", m.short, f"strand-aware cut arithmetic holds on {n_ok} paths", m.loc())
    missing = [k for k, v in seen_trim.items() if v == 0]
    L.check(not missing, "R2", m.short + ":cases", "start/end × forward/reverse trims all occur", f"no path trims case(s) {missing}: a shared terminal contig in that position/orientation is never cut to the bait", m.loc())
    # keep flags: a trimmed side requires its keep flag to be false
    # (checked through pc: the keep parameter's truthiness must be negated on trimming paths)
    bad_keep = None
    for r in finals:
        S1, E1 = as_lin(r.heap[("self", "start")]), as_lin(r.heap[("self", "end")])
        for moved, flag in ((not (S1 - S0).is_zero(), "keep_start"), (not (E0 - E1).is_zero(), "keep_end")):
            if moved and flag in m.params():
                want = b_not(B("atom", f"truthy({flag})"))
                if want not in r.pc:
                    bad_keep = (r, flag)
    L.check(bad_keep is None, "R2", m.short + ":keep", "a side is only trimmed when its keep flag is false", f"side trimmed although '{bad_keep[1] if bad_keep else ''}' may be set: the outer contig end would be cut off", m.loc())


# ------------------------------------------------------------------------------ R4


def _r4(repo, L, ovr, direct):
    """In every method that pops a *non-gap-loop* terminal row, all paths end with the
    false edge of a loop test that (i) guards emptiness and (ii) tests the same end for Gap."""
    n = 0
    for name, m in sorted(direct.items()):
        pops = [c for c in walk_shallow(m.node) if isinstance(c, ast.Call) and isinstance(c.func, ast.Attribute) and c.func.attr == "pop" and norm(c.func.value) == "self.rows"]
        if not pops:
            continue
        n += 1
        ends = set()
        for c in pops:
            i = c.args[0] if c.args else None
            ends.add("-1" if i is None else norm(i))
        if len(ends) != 1:
            L.fail("R4", m.short, "pops at different ends in one method; stripping cannot be paired", m.loc())
            continue
        idx = ends.pop()
        ok, why = True, ""
        for p in paths(m, (0, 1, 2), exc_edges=False):
            if p.status != "return":
                continue
            last_pop = -1
            for i, e in enumerate(p.events):
                if e.kind in ("stmt", "cond") and any(x in pops for x in [e.node, *walk_shallow(e.node)]):
                    last_pop = i
            if last_pop < 0:
                continue
            tail = [e for e in p.events[last_pop + 1:] if e.kind == "cond"]
            if not tail:
                from ..util import ancestors as _anc

                lp_node = p.events[last_pop].node
                if any(isinstance(a, ast.For) for pp in pops for a in _anc(pp)):
                    raise AnalysisError(f"{m.short}: rows are removed inside a for-loop (e.g. over takewhile(...)): the gap-stripping discipline is written in a form the pairing rule does not understand")
                ok, why = False, "a path ends right after removing a row, without testing the new terminal row for Gap"
                break
            # facts established after the last removal, in order: the path must end knowing "no rows left" or
            # "rows left and the terminal row is not a Gap" (the Gap test itself protected by an emptiness test)
            from ..flow import cond_facts as _cf

            gap_txt = f"isinstance(self.rows[{idx}],Gap)"
            def is_nonempty_test(x):
                tx = norm(x).replace(" ", "")
                return tx == "self.rows" or "len(self.rows)" in tx
            verdict = None  # "empty" | "not-gap" | "unguarded"
            nonempty_known = False
            for t in tail:
                node, val = t.node, t.val
                if isinstance(node, ast.BoolOp) and isinstance(node.op, ast.And) and val is False and len(node.values) == 2 and is_nonempty_test(node.values[0]) and norm(node.values[1]).replace(" ", "") == gap_txt:
                    verdict = "not-gap"  # empty, or non-empty and not a gap: both fine, the guard is in the same test
                    continue
                for tt, vv in _cf(node, val):
                    txt = norm(tt).replace(" ", "")
                    if is_nonempty_test(tt):
                        nonempty_known = bool(vv) if txt == "self.rows" else nonempty_known or bool(vv)
                        if txt == "self.rows" and not vv:
                            verdict = "empty"
                    elif txt == gap_txt:
                        if not vv:
                            verdict = "not-gap" if nonempty_known else "unguarded"
                        else:
                            verdict = None  # a gap was seen: it has to be removed (another pop) -> this is not the tail
            if verdict == "unguarded":
                ok, why = False, f"the 'terminal row is a Gap' test after the last removal has no emptiness guard"
                break
            if verdict is None:
                t = tail[-1]
                ok, why = False, f"after the last removal the path does not leave through a failed 'terminal row is a Gap' test (last test: {norm(t.node)} = {t.val})"
                break
        L.check(ok, "R4", m.short, f"terminal gaps stripped at index {idx} with emptiness guard on every path", why, m.loc())
    L.floor("R4", "end-removal methods", n, 1)


# ------------------------------------------------------------------------------ R5


def _r5(repo, L, ovr, frag, tier):
    ex = SymExec(repo)
    st, selfv = fresh_state(ovr, frag)
    S, E = Lin.atom("S"), Lin.atom("E")
    bs, be = Lin.atom("bait._start"), Lin.atom("bait._end")
    want = {
        "length": E - S + 1,
        "start_overhang": bs - S,
        "end_overhang": E - be,
        "length_error": (E - S + 1) - (be - bs + 1),
    }
    for attr, w in want.items():
        m = repo.find_method(ovr, attr)
        if m is None or m.cls is not ovr:
            raise AnalysisError(f"anchor OverlapResult.{attr} vanished")
        v = ex.get_attr(st, selfv, attr, None, m)
        try:
            ok = as_lin(v) == w
        except NotNumeric:
            ok = False
        L.check(ok, "R5", f"OverlapResult.{attr}", f"== {w}", f"{attr} evaluates to {v!r}, plain interval arithmetic gives {w}", m.loc())
    # bait overlaps on order regions
    K = 2 if tier == "quick" else 3
    for attr, which in (("start_row_bait_overlap", 0), ("end_row_bait_overlap", -1)):
        m = repo.find_method(ovr, attr)
        if m is None:
            raise AnalysisError(f"anchor OverlapResult.{attr} vanished")
        ex2 = SymExec(repo)
        st2, selfv2 = fresh_state(ovr, frag)
        finals = ex2.run_function(m, st2, {m.params()[0]: selfv2})
        g = GhostList("rows")
        rowlen = f"{g.elem_name(which)}.length"
        # variables: bait start/end, row start/end in scaffold coordinates
        if which == 0:
            mapping = {rowlen: Lin.atom("re") - Lin.atom("S") + 1, "E": Lin.atom("E_unused")}
            rs, re_ = Lin.atom("S"), Lin.atom("re")
            variables = ["bait._start", "bait._end", "S", "re"]
            cons = [("bait._start", "bait._end"), ("S", "re")]
        else:
            mapping = {rowlen: Lin.atom("E") - Lin.atom("rs") + 1, "S": Lin.atom("S_unused")}
            rs, re_ = Lin.atom("rs"), Lin.atom("E")
            variables = ["bait._start", "bait._end", "rs", "E"]
            cons = [("bait._start", "bait._end"), ("rs", "E")]
        cases = []
        for r in finals:
            cases.append(([deep_subst(c, mapping) for c in r.pc], deep_subst(r.ret, mapping) if isinstance(r.ret, Lin | B) else r.ret, ""))
        summ = Summary(m.short, cases)
        nreg = 0
        bad = None
        try:
            for region in enumerate_regions(variables, cons, K):
                nreg += 1
                got, _ = summ.eval(region)
                # spec: |[bs,be] ∩ [rs,re]| (0 when disjoint)
                p = region.pos
                a0, a1 = p["bait._start"], p["bait._end"]
                r0, r1 = region.subst(rs), region.subst(re_)
                lo = a0 if region.decide_le(r0 - a0) else r0
                hi = a1 if region.decide_le(a1 - r1) else r1
                spec = ("int", (hi - lo + 1).key()) if region.decide_le(lo - hi) else ("int", Lin.const(0).key())
                if got != spec and bad is None:
                    bad = (region, got, spec)
        except Undecided as e:
            L.fail("R5", f"OverlapResult.{attr}", f"not plain interval arithmetic over bait and the {'first' if which == 0 else 'last'} row's span: {e}", m.loc())
            continue
        if bad:
            region, got, spec = bad
            L.fail("R5", f"OverlapResult.{attr}", f"differs from |bait ∩ {'first' if which == 0 else 'last'} row| in region {region.describe()}: got {got[1]}, expected {spec[1]}", m.loc(), witness=region.witness())
        else:
            L.ok("R5", f"OverlapResult.{attr}", f"== |bait ∩ terminal row span| on all {nreg} order regions", m.loc())


# ------------------------------------------------------------------------------ R6


def _gap_facts(pc):
    return sorted(repr(f) for f in pc if "isinstance(rows@" in repr(f))


def _r6(repo, L, ovr, frag, iters):
    for what_if, do, fig, label in (
        ("overhang_if_start_removed", "discard_start", "start_overhang", "start"),
        ("overhang_if_end_removed", "discard_end", "end_overhang", "end"),
    ):
        wf, df = repo.find_method(ovr, what_if), repo.find_method(ovr, do)
        if wf is None or df is None:
            raise AnalysisError(f"anchors OverlapResult.{what_if}/{do} vanished")
        ex = SymExec(repo, loop_iters=iters)
        st, selfv = fresh_state(ovr, frag)
        wfin = ex.run_function(wf, st, {wf.params()[0]: selfv})
        st2, selfv2 = fresh_state(ovr, frag)
        dfin = ex.run_function(df, st2, {df.params()[0]: selfv2})
        # value after doing it
        do_vals = {}
        for r in dfin:
            g = r.heap[("self", "rows")]
            k = (g.front + g.back) - 1  # number of gap rows stripped
            stt = State()
            stt.heap = r.heap
            v = ex.get_attr(stt, Sym("self", ovr), fig, None, df)
            do_vals.setdefault(k, set()).add(repr(as_lin(v)))
        wi_vals = {}
        import re as _re

        for r in wfin:
            # a result read back from a memo in the object's state: when the path has compared the memo with the current rows /
            # span before using it, whether it can be stale is not decided here
            for sym in set(_re.findall(r"call:self\.[\w\.]+#\d+", repr(r.ret))):
                for f_ in r.pc:
                    txt = repr(f_)
                    if sym in txt and not _re.fullmatch(r"!?<\$?" + _re.escape(sym) + r"(\[\d+\])? is Const\(None\)>", txt):
                        raise AnalysisError(f"OverlapResult.{what_if}: the result is read from a memo ('{sym}') that the path validates against the current state ({txt[:70]}): staleness not decided")
                # an unvalidated memo is sound exactly when every operation that changes the rows or the span drops it
                m_attr = _re.match(r"call:self\.(\w+)\.", sym)
                if m_attr:
                    attr_ = m_attr.group(1)
                    direct_, _all = mutators(repo, ovr)
                    clearing = set()
                    for nm_, mm_ in ovr.methods.items():
                        for n_ in walk_shallow(mm_.node):
                            if isinstance(n_, ast.Call) and isinstance(n_.func, ast.Attribute) and norm(n_.func.value) == f"self.{attr_}" and n_.func.attr in ("clear", "pop", "popitem"):
                                clearing.add(nm_)
                            if isinstance(n_, ast.Assign) and any(norm(t_) == f"self.{attr_}" for t_ in n_.targets):
                                clearing.add(nm_)
                    missing = sorted(set(direct_) - clearing)
                    if missing:
                        L.fail(
                            "R6", f"OverlapResult.{what_if}:memo",
                            f"the what-if figure is kept in self.{attr_} and returned without being checked against the current rows and span, but {', '.join(missing)} change{'s' if len(missing) == 1 else ''} the rows / span without dropping it: after such a call the what-if no longer equals what the removal would give",
                            repo.find_method(ovr, missing[0]).loc(), witness={"history": f"{what_if}(); {missing[0]}(...); {what_if}()"},
                        )
                        return
                    raise AnalysisError(f"OverlapResult.{what_if}: the result is read from a memo (self.{attr_}) dropped by every operation of the class that changes rows or span; writers outside the class are not tracked: not decided")
            gaps = sum(1 for f in r.pc if f.kind == "atom" and f.a.startswith("isinstance(rows@") and "Gap" in f.a)
            try:
                wi_vals.setdefault(gaps, set()).add(repr(as_lin(r.ret)))
            except NotNumeric:
                wi_vals.setdefault(gaps, set()).add(repr(r.ret))
        common = sorted(set(do_vals) & set(wi_vals))
        ok = bool(common) and all(do_vals[k] == wi_vals[k] for k in common) and len(common) >= 2
        detail = ""
        if not ok:
            for k in common or sorted(set(do_vals) | set(wi_vals)):
                if do_vals.get(k) != wi_vals.get(k):
                    detail = f"with {k} gap row(s) after the removed {label} row: what-if gives {sorted(wi_vals.get(k, []))}, after {do}() the {fig} is {sorted(do_vals.get(k, []))}"
                    break
        L.check(ok, "R6", f"OverlapResult.{what_if}", f"== {fig} after {do}() for 0..{max(common) if common else 0} stripped gaps", detail or "what-if and do have no comparable paths", wf.loc())


def _fresh_list(e, param=None) -> bool:
    """Does the expression build a new list (so the holder owns it)?"""
    if isinstance(e, ast.List | ast.ListComp):
        return True
    if isinstance(e, ast.Call) and dotted(e.func) in ("list", "sorted") and e.args:
        return True
    if isinstance(e, ast.Subscript) and isinstance(e.slice, ast.Slice):
        return True
    if isinstance(e, ast.IfExp):
        return _fresh_list(e.body, param) and _fresh_list(e.orelse, param)
    if isinstance(e, ast.BinOp) and isinstance(e.op, ast.Add):
        return True
    return False


def _ownership(repo, L, ovr):
    """The mutating operations edit `self.rows` in place, so an overlap result must OWN its row list:
    either the Scaffold constructor copies the rows it is given, or every construction site of an
    OverlapResult hands over a fresh list (slice / literal).  A shared list would let discard/trim edit
    the indexed source scaffold behind its index."""
    scf = repo.cls("Scaffold")
    init = scf.methods.get("__init__")
    rp = next((p for p in init.params()[1:] if p == "rows"), None)
    stores = [n for n in walk_shallow(init.node) if isinstance(n, ast.Assign) and any(norm(t) == "self.rows" for t in n.targets)]
    copies = bool(stores) and all(_fresh_list(n.value) for n in stores)
    if copies:
        L.ok("R3", "Scaffold.__init__:owns-rows", "constructor stores a copy of the rows it is given", init.loc())
        return
    bad = []
    n_sites = 0
    for f in repo.functions.values():
        for c in repo.calls_in(f):
            if dotted(c.func) in ("OverlapResult",):
                n_sites += 1
                a = next((k.value for k in c.keywords if k.arg == "rows"), None)
                if a is None and len(c.args) > 1:
                    a = c.args[1]
                defs = [a]
                if isinstance(a, ast.Name):
                    defs = [n.value for n in walk_shallow(f.node) if isinstance(n, ast.Assign) and is_name(n.targets[0], a.id)]
                if not defs or not all(_fresh_list(d) for d in defs):
                    bad.append(f"{f.short}: rows={[norm(d)[:50] for d in defs]}")
    L.check(not bad and n_sites > 0, "R3", "OverlapResult:owns-rows", "every overlap result is built from a fresh row list", f"the Scaffold constructor keeps the caller's list ({[norm(n.value)[:60] for n in stores]}) and an overlap result is built from a list it does not own ({bad[:1]}): discard/trim then edit the indexed source scaffold in place while its index goes stale", init.loc(), witness={"history": "bait covering a whole scaffold → lookup → discard_end() → second lookup on the same scaffold"})


def _const_param_valuations(repo, m: Func):
    """Integer parameters that receive only constants at every call site are analysed once per constant
    (e.g. a helper `discard_terminal_row(idx)` called with 0 and -1)."""
    from ..fold import try_fold
    from ..util import arg_for_param
    import itertools

    params = m.params()[1:]
    callers = [(f, c) for f, c in repo.callers_of(m) if isinstance(c.func, ast.Attribute) and c.func.attr == m.name]
    choices = {}
    for p in params:
        vals = set()
        ok = bool(callers)
        for f, c in callers:
            try:
                a = arg_for_param(c, m, p)
            except AnalysisError:
                ok = False
                break
            v = try_fold(a, default=None) if a is not None else None
            if isinstance(v, int) and not isinstance(v, bool):
                vals.add(v)
            else:
                ok = False
                break
        if ok and vals:
            choices[p] = sorted(vals)
    if not choices:
        return [{}]
    keys = list(choices)
    return [dict(zip(keys, combo)) for combo in itertools.product(*[choices[k] for k in keys])]
