"""C02 — curated layout follows the Pretext edits (structural clauses only).

The property as a whole bounds positions against a numeric tolerance (3 x error length) through the
joint behaviour of the overhang heuristics: that part is NOT decided (see DESIGN.md section 6).
Decided here are clauses whose truth is in the shape of the code and that are necessary conditions:

 R1 cutting a contig shared by two (or three) results at the bait coordinates yields pieces that tile
    the contig exactly, for forward AND reverse contigs: first/last piece keep the outer contig ends,
    each inner boundary is the Pretext coordinate.  (Otherwise the cut QC raises on a map PretextView
    can produce — "remapping completes without error" fails — or the split is not at the designated
    position.)
 R2 error length == 1 + floor(bp per texel)
 R3 orientation: a fused overlap result is reversed iff its bait is on the minus strand
 R4 order: lookup results are kept in Pretext order and fused in that order (append at the end)
 R5 a terminal row overlapping the bait by at least the error length is never discarded by trim_large_overhangs
 (R1 also: fragment_start_if_trimmed agrees with the start trim_fragment gives — sibling agreement of what-if and do)
"""

from __future__ import annotations

import ast

from ..model import AnalysisError, Func, Repo, dotted, is_name, norm, walk_shallow
from ..report import Ledger
from ..sym import B, Const, GhostList, Lin, State, Str, Sym, SymExec, as_lin, b_not, cmp_lin, NotNumeric

PROP = "C02"
LEVEL = "other"
EXPLANATION = (
    "Only structural clauses of C02 are claimed. The cut is decided end to end by abstract interpretation: for a "
    "contig shared by two results (it is the last row of one and the first row of the other, baits adjacent at a cut "
    "B inside the contig) and by three results (the middle one holds it as its only row), and for contig strand +1 and −1, "
    "the keep flags are taken from a symbolic run of cut_fragments' loop body, the order from fragment_start_if_trimmed, "
    "and trim_fragment is interpreted on each owner under the geometry assumptions; the resulting pieces must start at the "
    "contig start, end at the contig end and abut pairwise as affine identities. The 3 x texel placement tolerance, the "
    "discard heuristics and texel rounding are runtime geometry and are not decided."
)
LEVEL_NOTE = (
    "Claims only the clauses R1–R4 named in the module docstring; the numeric tolerance clause of C02 is outside static reach "
    "(DESIGN.md section 6). Geometry assumptions of R1: adjacent baits (cut at B and B+1), the cut strictly inside the contig, "
    "the contig terminal in each owner. Trusted base: sa/sym.py."
)


def _positive(diff: Lin, assumptions) -> bool | None:
    """Sign of diff under assumptions of the form x <= 0 (as Lins x): True (>0), False (<0), None."""
    if diff.is_const():
        return True if diff.c > 0 else False if diff.c < 0 else None
    for sign in (1, -1):
        d = diff.scale(sign)
        # d = c + Σ λ_i (-x_i) with λ_i >= 0 and c > 0  => d > 0 ; try single and pairs of assumptions
        cands = [Lin.const(0)]
        for x in assumptions:
            cands.append(x)
        for x in assumptions:
            for y in assumptions:
                cands.append(x + y)
        for x in cands:
            r = d + x
            if r.is_const() and r.c > 0:
                return sign == 1
    return None


class _CutExec(SymExec):
    def __init__(self, repo):
        super().__init__(repo, loop_iters=(0,))
        self.flags = []

    def inline(self, func):
        return False

    def call_default(self, st, n, fval, args, kwargs, func, depth):
        if isinstance(n.func, ast.Attribute) and n.func.attr == "trim_fragment":
            self.flags.append((args, kwargs))
            return Sym(st.new_name("piece"))
        return super().call_default(st, n, fval, args, kwargs, func, depth)


def run(repo: Repo, L: Ledger, tier: str):
    L.rule("R1", "cut pieces tile the contig (2 and 3 owners × strand ±1)")
    L.rule("R2", "error_length == 1 + floor(bp_per_texel)")
    L.rule("R3", "to_scaffold reverses iff bait strand == -1")
    L.rule("R4", "results kept and fused in Pretext order")

    ba = repo.cls("BuildAssembly")
    ovr = repo.cls("OverlapResult")
    frag = repo.cls("Fragment")
    cut = ba.methods.get("cut_fragments")
    trim = ovr.methods.get("trim_fragment")
    fsit = ovr.methods.get("fragment_start_if_trimmed")
    if not all((cut, trim, fsit)):
        raise AnalysisError("anchors cut_fragments / trim_fragment / fragment_start_if_trimmed vanished")
    # R1 interprets the three functions together: each must still be the function the affine model was confirmed on
    from ..drift import require_in_region

    for fn_ in (cut, trim, fsit):
        require_in_region(fn_, "the tiling of a cut contig by its owners' pieces")

    cs, ce, P = Lin.atom("cs"), Lin.atom("ce"), Lin.atom("P")
    Lc = ce - cs + 1

    def owner_state(kind, strand, bait_start, bait_end, assumptions):
        st = State()
        g = GhostList("rows")
        c = Sym("c", frag, exact=True)
        other0, other1 = Sym("o_first", frag, exact=True), Sym("o_last", frag, exact=True)
        if kind in ("start", "both"):
            g.alias[g.elem_name(0)] = c
        else:
            g.alias[g.elem_name(0)] = other0
        if kind in ("end", "both"):
            g.alias[g.elem_name(-1)] = c
        else:
            g.alias[g.elem_name(-1)] = other1
        st.heap[("self", "rows")] = g
        st.heap[("self", "start")] = P if kind in ("start", "both") else Lin.atom("S_far")
        st.heap[("self", "end")] = P + Lc - 1 if kind in ("end", "both") else Lin.atom("E_far")
        st.heap[("self", "bait")] = Sym("bait", frag)
        st.heap[("bait", "_start")] = bait_start
        st.heap[("bait", "_end")] = bait_end
        st.heap[("bait", "_tags")] = Const(())
        st.heap[("c", "_start")] = cs
        st.heap[("c", "_end")] = ce
        st.heap[("c", "_strand")] = Lin.const(strand)
        st.heap[("c", "_name")] = Sym("CTG")
        for x in assumptions:
            st.pc.append(B("le", x))
        return st, c

    # keep flags from cut_fragments' loop body
    loops = [n for n in cut.node.body if isinstance(n, ast.For) and any(isinstance(c, ast.Call) and isinstance(c.func, ast.Attribute) and c.func.attr == "trim_fragment" for c in walk_shallow(n))]
    if len(loops) != 1 or not isinstance(loops[0].target, ast.Tuple):
        raise AnalysisError("cut_fragments: loop over the ordered owners not found")
    lp = loops[0]
    iv, sv = (e.id for e in lp.target.elts)
    last_names = [n.targets[0].id for n in cut.node.body if isinstance(n, ast.Assign) and isinstance(n.targets[0], ast.Name) and isinstance(n.value, ast.BinOp) and isinstance(n.value.op, ast.Sub) and "len(" in norm(n.value)]
    frag_names = [n.targets[0].id for n in cut.node.body if isinstance(n, ast.Assign) and isinstance(n.targets[0], ast.Name) and norm(n.value).endswith(".fragment")]

    def flags_for(i, n_owners, strand):
        ex = _CutExec(repo)
        st = State()
        st.env["__func__"] = cut
        st.env[iv] = Lin.const(i)
        st.env[sv] = Sym("owner")
        for nm in last_names:
            st.env[nm] = Lin.const(n_owners - 1)
        c = Sym("c", frag, exact=True)
        st.heap[("c", "_strand")] = Lin.const(strand)
        for nm in frag_names:
            st.env[nm] = c
        st.env["self"] = Sym("self", ba)
        st.env[cut.params()[1]] = Sym("fnd")
        st.heap[("fnd", "fragment")] = c
        outs = [r for r in ex.run_block(lp.body, st, cut) if r.status == "run"]
        if len(outs) != 1 or len(ex.flags) != 1:
            raise AnalysisError(f"cut_fragments loop body: {len(outs)} paths / {len(ex.flags)} trim calls for owner {i}")
        args, kwargs = ex.flags[0]
        tp = trim.params()[2:]
        vals = dict(zip(tp, args[1:]))
        vals.update(kwargs)
        out = []
        for k in tp[:2]:
            v = vals.get(k, B("const", False))
            if not (isinstance(v, B) and v.kind == "const"):
                raise AnalysisError(f"keep flag '{k}' is not decided for owner {i}: {v!r}")
            out.append(bool(v.a))
        return out

    def piece(kind, strand, bait_start, bait_end, keep, assumptions):
        ex = SymExec(repo, loop_iters=(0, 1))
        st, c = owner_state(kind, strand, bait_start, bait_end, assumptions)
        tp = trim.params()
        finals = ex.run_function(trim, st, {tp[0]: Sym("self", ovr), tp[1]: c, tp[2]: B("const", keep[0]), tp[3]: B("const", keep[1])})
        if len(finals) != 1:
            raise AnalysisError(f"trim_fragment: {len(finals)} feasible paths for owner kind {kind}, strand {strand} (geometry assumptions do not decide its conditions)")
        r = finals[0]
        new = r.ret
        hs = {k[1]: v for k, v in r.heap.items() if isinstance(new, Sym) and k[0] == new.name}
        return as_lin(hs["_start"]), as_lin(hs["_end"])

    def order_key(kind, strand, bait_start, bait_end, assumptions):
        ex = SymExec(repo, loop_iters=(0, 1))
        st, c = owner_state(kind, strand, bait_start, bait_end, assumptions)
        fp = fsit.params()
        finals = ex.run_function(fsit, st, {fp[0]: Sym("self", ovr), fp[1]: c})
        if len(finals) != 1:
            raise AnalysisError("fragment_start_if_trimmed: path count")
        return as_lin(finals[0].ret)

    for n_owners in (2, 3):
        for strand in (1, -1):
            inst = f"{cut.short}[{n_owners} owners, strand {'+' if strand == 1 else '-'}]"
            if n_owners == 2:
                Bc = Lin.atom("B")
                assumptions = [P - Bc, Bc + 1 - (P + Lc - 1)]  # P <= B ; B < P+L-1
                owners = [
                    ("end", Lin.atom("b1s"), Bc),
                    ("start", Bc + 1, Lin.atom("b2e")),
                ]
            else:
                B1, B2 = Lin.atom("B1"), Lin.atom("B2")
                assumptions = [P - B1, B1 + 1 - B2, B2 + 1 - (P + Lc - 1)]
                owners = [
                    ("end", Lin.atom("b1s"), B1),
                    ("both", B1 + 1, B2),
                    ("start", B2 + 1, Lin.atom("b3e")),
                ]
            try:
                keys = [order_key(k, strand, bs, be, assumptions) for k, bs, be in owners]
                # the sort key is the start the contig piece would get if trimmed on both sides (sibling agreement of
                # fragment_start_if_trimmed with trim_fragment): otherwise the pieces are processed in the wrong order
                agree = True
                for (k, bs, be), key in zip(owners, keys):
                    s_trim, _ = piece(k, strand, bs, be, (False, False), assumptions)
                    if not (key - s_trim).is_zero():
                        agree = False
                        L.fail(
                            "R1", f"{fsit.short}[{k} of result, strand {'+' if strand == 1 else '-'}]",
                            f"what-if start {key} differs from the start {s_trim} that trim_fragment gives the same contig in the same result (one of the two is wrong): the owners of a shared contig are "
                            "ordered by a position their pieces do not have, the first/last-piece keep flags go to the wrong owners and the cut QC raises on a map PretextView can produce",
                            fsit.loc(), witness={"owner holds the contig at its": k, "strand": strand},
                        )
                if agree:
                    L.ok("R1", f"{fsit.short}[{n_owners} owners, strand {'+' if strand == 1 else '-'}]", "what-if start == trimmed start for every owner", fsit.loc())
                # ascending order of the sort keys
                idx = list(range(len(owners)))
                ordered = []
                remaining = idx[:]
                while remaining:
                    lowest = None
                    for a in remaining:
                        if all(a == b or _positive(keys[b] - keys[a], assumptions) is True for b in remaining):
                            lowest = a
                    if lowest is None:
                        raise AnalysisError(f"{inst}: order of the owners by fragment_start_if_trimmed is not decided ({keys})")
                    ordered.append(lowest)
                    remaining.remove(lowest)
                pieces = []
                for rank, oi in enumerate(ordered):
                    keep = flags_for(rank, n_owners, strand)
                    k, bs, be = owners[oi]
                    pieces.append(piece(k, strand, bs, be, keep, assumptions))
            except NotNumeric as e:
                raise AnalysisError(f"{inst}: non-integer form {e}")
            # pieces in contig order are those of `ordered` (sorted by the start they will have)
            ok = pieces[0][0] == cs and pieces[-1][1] == ce
            why = f"first piece starts at {pieces[0][0]} (contig start cs), last piece ends at {pieces[-1][1]} (contig end ce)"
            for (s1, e1), (s2, e2) in zip(pieces, pieces[1:]):
                if not (e1 + 1 - s2).is_zero():
                    ok = False
                    why = f"consecutive pieces {s1}..{e1} and {s2}..{e2} do not abut (difference {e1 + 1 - s2}): the pieces overlap or leave a hole, so the cut QC raises on a map PretextView can produce"
            L.check(
                ok, "R1", inst, "pieces start at the contig start, end at its end and abut at the Pretext cut",
                why + f"; pieces (in the order cut_fragments processes the owners): {[f'{a}..{b}' for a, b in pieces]}",
                cut.loc(), witness={"input": "one contig on the given strand in scaffold S", "map": "S cut at a texel boundary inside the contig into Pretext pieces", "pieces": [f"{a}..{b}" for a, b in pieces]},
            )

    # ---- R5: a terminal row overlapping the bait by at least the error length is never discarded
    # (a legal piece is >= 2 texels >= error length long; inside one contig its only row overlaps it by its whole length)
    tlo = ovr.methods.get("trim_large_overhangs")
    if tlo is None:
        raise AnalysisError("anchor OverlapResult.trim_large_overhangs vanished")
    L.rule("R5", "terminal row with bait overlap >= error length is never discarded")
    err = Lin.atom("err")
    OS, OE = Lin.atom("start_row_overlap"), Lin.atom("end_row_overlap")

    class _Trim(SymExec):
        def attr_hook(self_, st, obj, attr, node):
            if isinstance(obj, Sym) and obj.name == "self":
                if attr == "start_row_bait_overlap":
                    return OS
                if attr == "end_row_bait_overlap":
                    return OE
            return NotImplemented

    for pn in ("start_row_bait_overlap", "end_row_bait_overlap"):
        if repo.find_method(ovr, pn) is None:
            raise AnalysisError(f"anchor OverlapResult.{pn} vanished")
    ex5 = _Trim(repo, loop_iters=(0, 1, 2))
    st5 = State()
    st5.heap[("self", "rows")] = GhostList("rows")
    st5.heap[("self", "start")] = Lin.atom("S")
    st5.heap[("self", "end")] = Lin.atom("E")
    st5.heap[("self", "bait")] = Sym("bait", frag)
    st5.pc.append(B("le", err - OS))
    st5.pc.append(B("le", err - OE))
    st5.pc.append(B("le", Lin.const(1) - err))
    tps = tlo.params()
    fin5 = ex5.run_function(tlo, st5, {tps[0]: Sym("self", ovr), tps[1]: err})
    if not fin5:
        raise AnalysisError("trim_large_overhangs: no completing path when both terminal rows overlap the bait by >= error length")
    for r in fin5:
        if not isinstance(r.heap[("self", "rows")], GhostList):
            raise AnalysisError(f"{tlo.short}: self.rows is rebound to a value outside the list model: no verdict")
        unk = [op for op, *_ in r.heap[("self", "rows")].log if op.endswith("?")]
        if unk:
            raise AnalysisError(f"{tlo.short}: rows are changed by an operation outside the list model ({unk}): no verdict")
    bad5 = [r for r in fin5 if r.heap[("self", "rows")].log]
    L.check(
        not bad5, "R5", tlo.short,
        f"no row discarded on all {len(fin5)} feasible paths when both terminal overlaps are >= error length",
        "a terminal row that overlaps the bait by a full error length (e.g. the only row of a legal two-texel piece cut out of the middle of a contig, at 1 <= bp/texel < 1.5) is discarded: the piece vanishes and the cut QC raises"
        + (f" ({bad5[0].path.describe()})" if bad5 and bad5[0].path else ""),
        tlo.loc(), witness={"bp_per_texel": 1.2, "piece": "2 texels inside one contig", "overlap": "== error length == 2"},
    )

    # ---- R2
    el = ba.methods.get("error_length")
    ok2 = False
    if el is not None:
        rets = [n for n in walk_shallow(el.node) if isinstance(n, ast.Return)]
        if len(rets) == 1:
            t = norm(rets[0].value).replace(" ", "")
            ok2 = t in ("1+math.floor(self.bp_per_texel)", "math.floor(self.bp_per_texel)+1", "1+int(self.bp_per_texel)", "int(self.bp_per_texel)+1")
    L.check(ok2, "R2", "BuildAssembly.error_length", "1 + floor(bp per texel)", f"error length is computed as '{norm(rets[0].value) if el and rets else None}'", el.loc() if el else "")
    uses = [c for f in (ba.methods.get("find_assembly_overlaps"), ba.methods.get("discard_overhanging_fragments")) if f for c in walk_shallow(f.node) if isinstance(c, ast.Attribute) and c.attr == "error_length"]
    L.check(len(uses) >= 2, "R2", "error_length:uses", "trimming and overhang resolution both use it", "the error length is no longer passed to trim_large_overhangs / OverhangResolver", ba.module.relpath)

    # ---- R3
    from .shared import to_scaffold_orientation

    to_scaffold_orientation(repo, L, "R3")

    # ---- R4
    asm = repo.cls("Assembly")
    add = asm.methods.get("add_scaffold")
    ok4 = add is not None and any(norm(c) == f"self.scaffolds.append({add.params()[1]})" for c in walk_shallow(add.node) if isinstance(c, ast.Call))
    L.check(ok4, "R4", "Assembly.add_scaffold", "results appended in arrival (Pretext) order", "add_scaffold no longer appends at the end", add.loc() if add else "")
    scf = repo.cls("Scaffold")
    app = scf.methods.get("append_scaffold")
    ok4b = app is not None and any(norm(c) == f"self.rows.extend({app.params()[1]}.rows)" for c in walk_shallow(app.node) if isinstance(c, ast.Call))
    L.check(ok4b, "R4", "Scaffold.append_scaffold", "fused pieces follow each other in that order", "append_scaffold does not append the other scaffold's rows at the end in order", app.loc() if app else "")
    fuse = ba.methods.get("scaffolds_fused_by_name")
    loops = [n for n in fuse.node.body if isinstance(n, ast.For)]
    L.check(bool(loops) and norm(loops[0].iter) == "self.scaffolds", "R4", fuse.short, "fuse loop visits the results in order", "fuse loop does not iterate the results in their stored order", fuse.loc())
    L.assume("adjacent baits (cut at B | B+1) strictly inside the contig; the contig is the terminal row of each owner")
