"""C05 — AGP and TPF parse/format round-trip without loss (codec agreement).

 T1 strand tables: reader ∘ writer = id on what the format can carry; writer's word for an
    unknown strand is not a TPF reader key (error, not a silent value)
 T2 TPF gap-type maps: reader∘writer = id on the AGP gap-type vocabulary; writer∘reader = id on TYPE-2/TYPE-3
    and the upper-dash images; the writer is injective on the vocabulary
 T3 column agreement: writer template vs reader field map, per row kind (AGP W / gap rows, TPF fragment / GAP rows;
    TPF name:start-end skeleton vs the reader's regex)
 T4 every path through a parser's line loop: skip (blank/comment only) | exactly one row | error
 T5 numeric fields: written with str(), converted with int() in the row constructors
 T6 tags: writer appends row.tags in order; reader takes every column from the tenth on
 T7 scaffold switch: new scaffold exactly when the scaffold-name column changes; writer repeats the name on every row
 T8 asm-format dispatch: AGP/TPF select the matching parser / formatter, anything else raises
 T9 header lines: the writer's prefix is accepted by the same format's reader and stripped to the same text
"""

from __future__ import annotations

import ast

from ..finite import run_paths
from ..flow import PathEnum, cond_facts
from ..fold import Folder, NotConstant, Rx, charset, sre_c, try_fold
from ..model import AnalysisError, Class, Func, Repo, dotted, is_name, norm, walk_shallow
from ..report import Ledger
from ..sym import B, Const, Fmt, Join, Lin, Lookup, Slice, Star, State, Str, Sym, SymExec, Tup, as_lin, NotNumeric

PROP = "C05"
LEVEL = "other"
EXPLANATION = (
    "A codec round-trips on all values iff writer and reader agree on which column carries which field, each column's "
    "converter pair is mutually inverse on the field's domain, and every data line yields exactly one row. All three are "
    "decided from the source: the formatters' written lines are recovered as symbolic column lists and the parsers' row "
    "constructors as field maps (symbolic execution of one line-loop iteration), then compared column by column; the strand "
    "tables and both TPF gap-type translation tables are folded and checked exhaustively over their finite domains; each "
    "parser's line loop is path-enumerated (skip only under the blank/comment guards, otherwise exactly one row or an error). "
    "Domain: names without tab/newline, canonical integers."
)

AGP_GAP_TYPES = ("scaffold", "contig", "centromere", "short_arm", "heterochromatin", "telomere", "repeat", "contamination", "unknown")


# ------------------------------------------------------------------------------ extraction


class _WExec(SymExec):
    """Formatter side: captures file.write() values."""

    def __init__(self, repo, file_param):
        super().__init__(repo, loop_iters=(0, 1))
        self.file_param = file_param

    def call_default(self, st, n, fval, args, kwargs, func, depth):
        if isinstance(n.func, ast.Attribute) and n.func.attr == "write" and is_name(n.func.value, self.file_param):
            st.effects.append(("write", n, args[0] if args else None))
            return Const(None)
        if isinstance(n.func, ast.Attribute) and n.func.attr == "get" and len(args) == 2:
            return Sym(f"GET[{norm(n.func.value)}]({_nm(args[0])})")
        return super().call_default(st, n, fval, args, kwargs, func, depth)

    def inline(self, func):
        return func.is_property


def _nm(v):
    while isinstance(v, Str):
        v = v.v
    return v.name if isinstance(v, Sym) else repr(v)


class _RExec(SymExec):
    """Parser side: one line-loop iteration with `fields` symbolic."""

    def call_default(self, st, n, fval, args, kwargs, func, depth):
        if isinstance(n.func, ast.Attribute) and n.func.attr == "split":
            st.effects.append(("split", n, (self.eval(n.func.value, st, func, depth), args)))
            return Sym("fields")
        if isinstance(n.func, ast.Attribute) and n.func.attr == "add_row" and len(args) == 1:
            st.effects.append(("add_row", n, args[0]))
            return Const(None)
        if isinstance(n.func, ast.Attribute) and n.func.attr == "group" and len(args) == 1 and isinstance(args[0], Lin) and args[0].is_const():
            return Sym(f"group({int(args[0].c)})")
        if isinstance(n.func, ast.Attribute) and n.func.attr == "get" and len(args) == 2:
            return Sym(f"GET[{norm(n.func.value)}]({_nm(args[0])})")
        if dotted(n.func) == "tuple" and len(args) == 1 and isinstance(args[0], Slice):
            return args[0]
        return super().call_default(st, n, fval, args, kwargs, func, depth)

    def inline(self, func):
        return func.name == "__init__" or func.is_property


def writer_rows(repo, fmt: Func):
    """-> {'frag': [cols...], 'gap': [cols...], 'header': value} symbolic column lists of one row."""
    ps = fmt.params()
    ex = _WExec(repo, ps[1])
    st = State()
    finals = ex.run_function(fmt, st, {ps[0]: Sym("asm"), ps[1]: Sym("file")})
    out = {}
    for r in finals:
        ws = [e for e in r.effects if e[0] == "write"]
        for i, (_, node, v) in enumerate(ws):
            if isinstance(v, Join) and isinstance(v.items, Tup):
                cols = v.items.items
                nl = i + 1 < len(ws) and isinstance(ws[i + 1][2], Const) and ws[i + 1][2].v == "\n"
                kind = "gap" if any(isinstance(c, Const) and c.v in ("U", "N", "GAP") for c in cols[:5]) else "frag"
                key = (kind, any(isinstance(c, Star) for c in cols))
                out.setdefault(kind, {})[key] = (cols, v.sep, nl, node)
            elif isinstance(v, Tup) and v.kind == "fstr":
                out["header"] = v
    return out


def reader_rows(repo, parser: Func):
    """-> list of dict(kind, fields{ctor field -> symbolic source}, pc, split=(recv, args)) per row-adding path,
    plus the loop node."""
    loops = [n for n in walk_shallow(parser.node) if isinstance(n, ast.For) and is_name(n.iter, parser.params()[0])]
    if len(loops) != 1:
        raise AnalysisError(f"{parser.short}: line loop not found")
    lp = loops[0]
    ex = _RExec(repo, loop_iters=(0,))
    st = State()
    st.env["__func__"] = parser
    st.env[lp.target.id] = Sym("line")
    st.env["scaffold"] = Sym("scaffold")
    st.env["scaffold_name"] = Sym("cur_name")
    st.env["asm"] = Sym("asm")
    # constant tables defined before the loop
    for n in parser.node.body:
        if n is lp:
            break
        if isinstance(n, ast.Assign) and isinstance(n.targets[0], ast.Name):
            c = try_fold(n.value, default=None)
            if c is not None:
                st.env[n.targets[0].id] = Const(c) if isinstance(c, dict) else ex.eval(n.value, st, parser)
    outs = ex.run_block(lp.body, st, parser)
    rows = []
    for r in outs:
        adds = [e for e in r.effects if e[0] == "add_row"]
        for _, node, row in adds:
            if isinstance(row, Sym) and row.cls is not None:
                fields = {k[1]: v for k, v in r.heap.items() if k[0] == row.name}
                sp = [e for e in r.effects if e[0] == "split"]
                rows.append({"kind": row.cls.name, "fields": fields, "pc": r.pc, "state": r, "split": sp[-1][2] if sp else None, "node": node})
    return rows, lp


def fields_var(parser: Func) -> str:
    for n in walk_shallow(parser.node):
        if isinstance(n, ast.Assign) and isinstance(n.targets[0], ast.Name) and isinstance(n.value, ast.Call) and isinstance(n.value.func, ast.Attribute) and n.value.func.attr == "split":
            return n.targets[0].id
    raise AnalysisError(f"{parser.short}: split-fields variable not found")


def ftxt(parser: Func, node) -> str:
    """norm(node) with the parser's fields variable spelled `fields`."""
    import re as _re

    fv = fields_var(parser)
    return _re.sub(rf"\b{_re.escape(fv)}\b", "fields", norm(node))


def _src(v):
    """Normalise a reader-side source expression to a short text."""
    while isinstance(v, Str):
        v = v.v
    if isinstance(v, Sym):
        return v.name
    if isinstance(v, Lookup):
        return f"LOOKUP({_src(v.idx)})"
    if isinstance(v, Slice):
        return f"{_src(v.obj)}[{_short(v.lo)}:{_short(v.hi)}]"
    if isinstance(v, Lin):
        return repr(v)
    return repr(v)


def _short(v):
    if v is None:
        return ""
    if isinstance(v, Lin) and v.is_const():
        return str(int(v.c))
    return repr(v)


def _wcol(c):
    """Normalise a writer column to (kind, field) e.g. ('str', 'start'), ('raw','name'), ('lookup','strand'), ('const','W')."""
    if isinstance(c, Const):
        return ("const", c.v)
    if isinstance(c, Str):
        inner = c.v
        if isinstance(inner, Sym):
            return ("str", inner.name.split(".")[-1] if ".rows[" in inner.name else inner.name)
        return ("str", repr(inner))
    if isinstance(c, Sym):
        if c.name.startswith("GET["):
            return ("conv", c.name)
        return ("raw", c.name.split(".")[-1] if ".rows[" in c.name else c.name)
    if isinstance(c, Lookup):
        return ("lookup", _nm(c.idx).split(".")[-1])
    if isinstance(c, Star):
        return ("star", _nm(c.v).split(".")[-1])
    if isinstance(c, Tup) and c.kind == "fstr":
        parts = []
        for p in c.items:
            if isinstance(p, Const):
                parts.append(p.v)
            elif isinstance(p, Fmt):
                parts.append("{" + _nm(p.v).split(".")[-1] + "}")
        return ("fstr", "".join(parts))
    return ("?", repr(c))


# ------------------------------------------------------------------------------ main


def run(repo: Repo, L: Ledger, tier: str):
    for rid, txt in {
        "T1": "strand tables mutually inverse on the carried domain", "T2": "TPF gap-type translation round-trips on the AGP vocabulary and TYPE-2/3",
        "T3": "writer column k carries the field the reader takes from column k", "T4": "line loop: skip (blank/comment) | one row | error",
        "T5": "str() on write, int() in the constructors", "T6": "tags appended / taken from column 10 on",
        "T7": "scaffold switch on name change; name on every row", "T8": "asm-format dispatch", "T9": "header prefix accepted and stripped by the same format's reader",
    }.items():
        L.rule(rid, txt)

    fm = repo.modules.get("tola.assembly.format")
    pm = repo.modules.get("tola.assembly.parser")
    if fm is None or pm is None:
        raise AnalysisError("modules tola.assembly.format / parser vanished")
    fa, ft = fm.functions.get("format_agp"), fm.functions.get("format_tpf")
    pa, pt = pm.functions.get("parse_agp"), pm.functions.get("parse_tpf")
    if not all((fa, ft, pa, pt)):
        raise AnalysisError("anchors format_agp/format_tpf/parse_agp/parse_tpf vanished")

    wa, wt = writer_rows(repo, fa), writer_rows(repo, ft)
    ra, la = reader_rows(repo, pa)
    rt, lt = reader_rows(repo, pt)

    L.rule("T11", "no formatter / parser cache keyed on less than the cached text depends on")
    from .shared import cache_key_complete

    n_c = sum(cache_key_complete(L, "T11", f_) for f_ in (fa, ft, pa, pt))
    if n_c == 0:
        L.ok("T11", "format/parser", "no per-row caches in the four codec functions", fm.relpath)
    _t1(repo, L, fa, ft, pa, pt, wa, wt, ra, rt)
    _t2(repo, L, ft, pt)
    _t3_agp(L, fa, pa, wa, ra)
    _t3_tpf(repo, L, ft, pt, wt, rt)
    _t4(L, pa, la, agp=True)
    _t4(L, pt, lt, agp=False)
    _t5(repo, L)
    _t10(repo, L)
    _t7(L, pa, la, 0)
    _t7(L, pt, lt, 2)
    _t8(repo, L)
    _t9(repo, L, fa, pa, wa, "AGP")
    _t9(repo, L, ft, pt, wt, "TPF")


# ------------------------------------------------------------------------------ T1


def _local_const(f: Func, name):
    for n in walk_shallow(f.node):
        if isinstance(n, ast.Assign) and is_name(n.targets[0], name):
            return try_fold(n.value, default=None)
    return None


def _tables_from(w, r):
    """writer strand table (index -> word) and reader strand table (word -> strand) from the extracted rows."""
    wt = rt = None
    for (cols, _, _, _) in w.get("frag", {}).values():
        for c in cols:
            if isinstance(c, Lookup):
                t = c.table
                if isinstance(t, Tup):
                    vals = [x.v if isinstance(x, Const) else None for x in t.items]
                    wt = {0: vals[0], 1: vals[1], -1: vals[-1]} if len(vals) == 3 else None
                elif isinstance(t, Const) and isinstance(t.v, dict):
                    wt = dict(t.v)
                elif isinstance(t, Const) and isinstance(t.v, tuple | list) and len(t.v) == 3:
                    wt = {0: t.v[0], 1: t.v[1], -1: t.v[-1]}
    for row in r:
        v = row["fields"].get("_strand")
        if isinstance(v, Lookup) and isinstance(v.table, Const) and isinstance(v.table.v, dict):
            rt = dict(v.table.v)
    return wt, rt


def _t1(repo, L, fa, ft, pa, pt, wa=None, wt_=None, ra=None, rt_=None):
    for fmt, prs, label, carried, w_rows, r_rows in ((fa, pa, "AGP", (0, 1, -1), wa, ra), (ft, pt, "TPF", (1, -1), wt_, rt_)):
        w, r = _tables_from(w_rows, r_rows)
        if not isinstance(w, dict) or not isinstance(r, dict):
            raise AnalysisError(f"{label}: strand tables not found as constants (writer {w!r}, reader {r!r})")

        def wv(s):
            return w[s]

        bad = [s for s in carried if r.get(wv(s), "missing") != s]
        L.check(not bad, "T1", f"{label}:reader∘writer", f"reader[writer[s]] == s for s in {carried}", f"{label}: strand {bad} is written as {[wv(s) for s in bad]} and read back as {[r.get(wv(s), 'KeyError') for s in bad]}", fmt.loc(), witness={"writer": w, "reader": r})
        img = {wv(s) for s in carried}
        extra = {k: v for k, v in r.items() if k not in img}
        bad2 = {k: v for k, v in extra.items() if v in carried}
        L.check(not bad2, "T1", f"{label}:writer∘reader", "no second spelling of a carried strand", f"{label}: reader accepts {bad2} which the writer never produces (re-formatting changes the text)", prs.loc())
        if label == "TPF":
            unk = wv(0)
            L.check(unk not in r, "T1", "TPF:unknown-strand", f"writer's word {unk!r} for strand 0 is rejected by the reader", f"TPF reader maps {unk!r} to {r.get(unk)!r}: an unknown strand silently becomes a value", prs.loc())
        L.check(len({wv(s) for s in (0, 1, -1)}) == 3, "T1", f"{label}:writer-injective", "three distinct strand words", f"{label} writer uses the same word for two strands", fmt.loc())


# ------------------------------------------------------------------------------ T2


class _CF(Folder):
    """Folder that also folds zero-argument repo functions returning a foldable expression."""

    def __init__(self, env, repo, mod):
        super().__init__(env)
        self.repo, self.mod = repo, mod

    def f_Name(self, n):
        try:
            return super().f_Name(n)
        except NotConstant:
            if n.id in self.mod.assigns:
                return _CF({}, self.repo, self.mod).fold(self.mod.assigns[n.id])
            raise

    def f_Call(self, n):
        if isinstance(n.func, ast.Name) and not n.args and not n.keywords:
            tgt = self.repo.resolve_dotted(self.mod, n.func.id)
            if isinstance(tgt, Func):
                rets = [x for x in walk_shallow(tgt.node) if isinstance(x, ast.Return)]
                if len(rets) == 1:
                    return _CF({}, self.repo, tgt.module).fold(rets[0].value)
        return super().f_Call(n)


def _gt_function(repo, f: Func, key_texts):
    """The gap-type conversion expression `<dict>.get(x, x.translate(<tr>))` in f and its environment."""
    env = {}
    for n in walk_shallow(f.node):
        if isinstance(n, ast.Assign) and isinstance(n.targets[0], ast.Name):
            try:
                env[n.targets[0].id] = _CF(env, repo, f.module).fold(n.value)
            except NotConstant:
                pass
    for c in walk_shallow(f.node):
        if isinstance(c, ast.Call) and isinstance(c.func, ast.Attribute) and c.func.attr == "get" and len(c.args) == 2 and "translate" in norm(c.args[1]):
            arg = norm(c.args[0])
            return c, arg, env
    raise AnalysisError(f"{f.short}: gap-type conversion `<table>.get(x, x.translate(tr))` not found")


def _t2(repo, L, ft, pt):
    wc, warg, wenv = _gt_function(repo, ft, None)
    rc, rarg, renv = _gt_function(repo, pt, None)

    def conv(call, argtxt, env, f, value):
        e = dict(env)
        # bind the argument expression text: row.gap_type / fields[1]
        sub = _Subst(argtxt, value)
        node = sub.visit(ast.parse(norm(call), mode="eval").body)
        return _CF(e, repo, f.module).fold(ast.fix_missing_locations(node))

    bad = []
    images = {}
    for g in AGP_GAP_TYPES:
        try:
            t = conv(wc, warg, wenv, ft, g)
            back = conv(rc, rarg, renv, pt, t)
        except NotConstant as e:
            raise AnalysisError(f"gap-type conversion not foldable: {e}")
        images[g] = t
        if back != g:
            bad.append((g, t, back))
    L.check(not bad, "T2", "TPF:reader∘writer", f"all {len(AGP_GAP_TYPES)} AGP gap types survive AGP→TPF→AGP", f"gap type {bad[0][0]!r} is written to TPF as {bad[0][1]!r} and read back as {bad[0][2]!r}" if bad else "", ft.loc(wc), witness=bad[:3])
    inj = len(set(images.values())) == len(images)
    L.check(inj, "T2", "TPF:writer-injective", "distinct gap types get distinct TPF codes", f"two gap types share a TPF code: {images}", ft.loc(wc))
    bad2 = []
    for t in ["TYPE-2", "TYPE-3", *images.values()]:
        g = conv(rc, rarg, renv, pt, t)
        t2 = conv(wc, warg, wenv, ft, g)
        if t2 != t:
            bad2.append((t, g, t2))
    L.check(not bad2, "T2", "TPF:writer∘reader", "canonical TPF gap codes survive TPF→AGP→TPF", f"TPF gap code {bad2[0][0]!r} is read as {bad2[0][1]!r} and written back as {bad2[0][2]!r}" if bad2 else "", pt.loc(rc), witness=bad2[:3])
    L.check(images.get("scaffold") == "TYPE-2" and images.get("contig") == "TYPE-3", "T2", "TPF:type-2/3", "scaffold ↔ TYPE-2, contig ↔ TYPE-3", f"scaffold/contig gaps are written as {images.get('scaffold')!r}/{images.get('contig')!r}", ft.loc(wc))
    L.extra["gap_types_checked"] = len(AGP_GAP_TYPES)
    L.exhaustive = True


class _Subst(ast.NodeTransformer):
    def __init__(self, text, value):
        self.text, self.value = text, value

    def generic_visit(self, node):
        if isinstance(node, ast.expr) and norm(node) == self.text:
            return ast.Constant(value=self.value)
        return super().generic_visit(node)

    def visit(self, node):
        if isinstance(node, ast.expr) and norm(node) == self.text:
            return ast.Constant(value=self.value)
        return super().visit(node)


# ------------------------------------------------------------------------------ T3


def _disc_atoms(b, k=None):
    """atoms of the form `$fields[k] == Const('X')` / `$fields[k] in (...)` inside a boolean fact"""
    import re as _re

    out = []
    if b.kind == "atom":
        m = _re.match(r"\$?fields\[(\d+)\] (==|in) ", b.a)
        if m and "Const(" in b.a and (k is None or int(m.group(1)) == k):
            out.append((int(m.group(1)), b))
    elif b.kind == "not":
        out.extend(_disc_atoms(b.a, k))
    elif b.kind in ("and", "or"):
        for x in b.a:
            out.extend(_disc_atoms(x, k))
    return out


def _disc_column(pc):
    cols = [i for f in pc for i, _ in _disc_atoms(f) if i != 0]
    return max(set(cols), key=cols.count) if cols else None


def _disc_text(pc, k):
    return "; ".join(repr(f) for f in pc if k is not None and _disc_atoms(f, k)) or None


def _pc_under(pc, k, value):
    """three-valued truth of the conjunction of the facts that mention fields[k], with fields[k] == value"""
    def ev(b):
        if b.kind == "const":
            return bool(b.a)
        if b.kind == "atom":
            if _disc_atoms(b, k):
                return repr(Const(value)) in b.a.split(" ", 1)[1]
            return None
        if b.kind == "not":
            r = ev(b.a)
            return None if r is None else not r
        if b.kind == "and":
            rs = [ev(x) for x in b.a]
            return False if any(r is False for r in rs) else None if any(r is None for r in rs) else True
        if b.kind == "or":
            rs = [ev(x) for x in b.a]
            return True if any(r is True for r in rs) else None if any(r is None for r in rs) else False
        return None

    rel = [f for f in pc if _disc_atoms(f, k)]
    if not rel:
        return None
    rs = [ev(f) for f in rel]
    return False if any(r is False for r in rs) else None if any(r is None for r in rs) else True


def _t3_agp(L, fa, pa, w, r):
    frag_rows = [x for x in r if x["kind"] == "Fragment"]
    gap_rows = [x for x in r if x["kind"] == "Gap"]
    if not frag_rows or not gap_rows:
        raise AnalysisError("parse_agp: fragment / gap constructions not both found")
    wf = w.get("frag", {})
    wg = w.get("gap", {})
    if not wf or not wg:
        raise AnalysisError("format_agp: W / gap rows not both found")
    # split: tab, after stripping only trailing whitespace
    sp = frag_rows[0]["split"]
    ok_split = sp is not None and len(sp[1]) == 1 and isinstance(sp[1][0], Const) and sp[1][0].v == "\t"
    L.check(ok_split, "T3", "AGP:split", "reader splits on TAB", "parse_agp does not split the line on TAB", pa.loc())
    for (cols, sep, nl, node) in wf.values():
        L.check(sep == "\t" and nl, "T3", "AGP:W:join", "columns joined by TAB, newline-terminated", "format_agp does not write TAB-joined, newline-terminated rows", fa.loc(node))
        wc = [_wcol(c) for c in cols]
        fr = frag_rows[0]["fields"]
        want = {"_name": ("raw", "name"), "_start": ("str", "start"), "_end": ("str", "end")}
        for fld, (kind, attr) in want.items():
            src = _src(fr.get(fld))
            k = _field_index(src)
            ok = k is not None and k < len(wc) and wc[k] == (kind, attr)
            L.check(ok, "T3", f"AGP:W:{attr}", f"column {k + 1 if k is not None else '?'} carries row.{attr}", f"reader takes Fragment.{attr} from {src} but the writer puts {wc[k] if k is not None and k < len(wc) else None} there", pa.loc(frag_rows[0]["node"]), witness={"writer_columns": [str(x) for x in wc]})
        src = _src(fr.get("_strand"))
        k = _field_index(src.replace("LOOKUP(", "").rstrip(")")) if src.startswith("LOOKUP(") else None
        ok = k is not None and k < len(wc) and wc[k] == ("lookup", "strand")
        L.check(ok, "T3", "AGP:W:strand", f"column {k + 1 if k is not None else '?'} carries the strand symbol", f"reader takes the strand from {src}, writer column there is {wc[k] if k is not None and k < len(wc) else None}", pa.loc(frag_rows[0]["node"]))
        # T6 tags
        tsrc = _src(fr.get("_tags"))
        has_star = any(c[0] == "star" for c in wc)
        if has_star:
            star_at = [i for i, c in enumerate(wc) if c[0] == "star"][0]
            ok6 = tsrc == f"fields[{star_at}:]" and wc[star_at] == ("star", "tags") and star_at == len(wc) - 1
            L.check(ok6, "T6", "AGP:tags", f"tags written from column {star_at + 1}, read from {tsrc}", f"writer appends tags at column {star_at + 1} ({wc[star_at]}), reader takes {tsrc}", pa.loc(frag_rows[0]["node"]))
    L.check(any(any(c[0] == "star" for c in map(_wcol, cols)) for (cols, _, _, _) in wf.values()), "T6", "AGP:tags-written", "rows with tags write them", "format_agp never writes tags", fa.loc())
    for (cols, sep, nl, node) in wg.values():
        wc = [_wcol(c) for c in cols]
        gr = gap_rows[0]["fields"]
        for fld, want in (("_length", ("str", "length")), ("_gap_type", ("str", "gap_type"))):
            src = _src(gr.get(fld))
            k = _field_index(src)
            ok = k is not None and k < len(wc) and wc[k] == want
            L.check(ok, "T3", f"AGP:gap:{want[1]}", f"column {k + 1 if k is not None else '?'} carries row.{want[1]}", f"reader takes Gap.{want[1]} from {src}, writer column there is {wc[k] if k is not None and k < len(wc) else None}", pa.loc(gap_rows[0]["node"]))
        # discriminator: the reader's gap-row path condition, evaluated for the writer's constant in that column
        k = _disc_column(gap_rows[0]["pc"])
        if k is None:
            raise AnalysisError("parse_agp: how the reader tells gap rows from sequence rows (a test of one column against constants) is not understood")
        okd = False
        if k is not None and k < len(wc) and wc[k][0] == "const":
            okd = all(_pc_under(g["pc"], k, wc[k][1]) is True for g in gap_rows[:1])
        L.check(okd, "T3", "AGP:gap:discriminator", "writer's component type is in the reader's gap set", f"reader recognises gap rows by {_disc_text(gap_rows[0]['pc'], k)}; writer column is {wc[k] if k is not None and k < len(wc) else None}", pa.loc(gap_rows[0]["node"]))
    # W discriminator must not be in the gap set
    for (cols, _, _, node) in wf.values():
        wc = [_wcol(c) for c in cols]
        k = _disc_column(gap_rows[0]["pc"])
        if k is not None:
            ok = k < len(wc) and wc[k][0] == "const" and _pc_under(gap_rows[0]["pc"], k, wc[k][1]) is False
            L.check(ok, "T3", "AGP:W:discriminator", "W rows are not read as gaps", f"writer marks sequence rows with {wc[k] if k < len(wc) else None}, which the reader treats as a gap", fa.loc(node))


def _field_index(src):
    import re as _re

    m = _re.fullmatch(r"fields\[(\d+)\]", src or "")
    return int(m.group(1)) if m else None


def _t3_tpf(repo, L, ft, pt, w, r):
    frag_rows = [x for x in r if x["kind"] == "Fragment"]
    gap_rows = [x for x in r if x["kind"] == "Gap"]
    wf, wg = w.get("frag", {}), w.get("gap", {})
    if not frag_rows or not gap_rows or not wf or not wg:
        raise AnalysisError("TPF: fragment / gap rows not found on both sides")
    for (cols, sep, nl, node) in wf.values():
        wc = [_wcol(c) for c in cols]
        L.check(sep == "\t" and nl and len(wc) == 4, "T3", "TPF:frag:shape", "4 TAB-joined columns + newline", f"TPF fragment rows have {len(wc)} columns (reader requires exactly 4)", ft.loc(node))
        fr = frag_rows[0]["fields"]
        # name/start/end from regex groups on one column
        srcs = {k: _src(fr.get(k)) for k in ("_name", "_start", "_end", "_strand")}
        ok_groups = srcs["_name"] == "group(1)" and srcs["_start"] == "group(2)" and srcs["_end"] == "group(3)"
        L.check(ok_groups, "T3", "TPF:frag:groups", "name, start, end = regex groups 1, 2, 3", f"reader builds the fragment from {srcs}", pt.loc(frag_rows[0]["node"]))
        # which column is matched
        mcalls = [c for c in walk_shallow(pt.node) if isinstance(c, ast.Call) and (dotted(c.func) or "") in ("re.match", "re.fullmatch", "re.search") and len(c.args) >= 2 and "fields[" in ftxt(pt, c.args[1])]
        if len(mcalls) != 1:
            raise AnalysisError("parse_tpf: name regex match not found")
        k = _field_index(ftxt(pt, mcalls[0].args[1]))
        pat = try_fold(mcalls[0].args[0], default=None)
        col = wc[k] if k is not None and k < len(wc) else None
        L.check(col is not None and col[0] == "fstr", "T3", "TPF:frag:name-column", f"column {k + 1} holds name:start-end", f"reader parses column {k + 1 if k is not None else '?'}, writer puts {col} there", ft.loc(node))
        if col is not None and col[0] == "fstr" and isinstance(pat, str):
            ok, why = _skeleton_matches(pat, col[1], dotted(mcalls[0].func))
            L.check(ok, "T3", "TPF:frag:skeleton", f"regex {pat!r} parses '{col[1]}'", why, pt.loc(mcalls[0]), witness={"regex": pat, "template": col[1]})
        ks = _field_index(srcs["_strand"].replace("LOOKUP(", "").rstrip(")")) if srcs["_strand"].startswith("LOOKUP(") else None
        L.check(ks is not None and ks < len(wc) and wc[ks] == ("lookup", "strand"), "T3", "TPF:frag:strand", f"column {ks + 1 if ks is not None else '?'} carries the strand word", f"reader takes the strand from {srcs['_strand']}, writer column is {wc[ks] if ks is not None and ks < len(wc) else None}", pt.loc(frag_rows[0]["node"]))
        # field count test
        cnt = [f for f in frag_rows[0]["pc"] if f.kind == "eq" and any("len(fields)" in str(a) for a in f.a.t)]
        L.check(bool(cnt) and cnt[0].a.c == -len(wc), "T3", "TPF:frag:count", f"reader requires exactly {len(wc)} fields", "parse_tpf does not require the writer's field count for fragment rows", pt.loc())
    for (cols, sep, nl, node) in wg.values():
        wc = [_wcol(c) for c in cols]
        gr = gap_rows[0]["fields"]
        ls = _src(gr.get("_length"))
        kl = _field_index(ls)
        L.check(kl is not None and kl < len(wc) and wc[kl] == ("str", "length"), "T3", "TPF:gap:length", f"column {kl + 1 if kl is not None else '?'} carries the gap length", f"reader takes Gap.length from {ls}, writer column is {wc[kl] if kl is not None and kl < len(wc) else None}", pt.loc(gap_rows[0]["node"]))
        ts = _src(gr.get("_gap_type"))
        import re as _re

        m = _re.search(r"fields\[(\d+)\]", ts)
        kt = int(m.group(1)) if m else None
        L.check(kt is not None and kt < len(wc) and wc[kt][0] == "conv", "T3", "TPF:gap:type", f"column {kt + 1 if kt is not None else '?'} carries the translated gap type", f"reader takes the gap type from {ts}, writer column is {wc[kt] if kt is not None and kt < len(wc) else None}", pt.loc(gap_rows[0]["node"]))
        L.check(wc[0] == ("const", "GAP"), "T3", "TPF:gap:discriminator", "gap rows start with GAP", f"writer starts gap rows with {wc[0]}", ft.loc(node))
        disc = [f for f in gap_rows[0]["pc"] if f.kind == "atom" and "fields[0]" in f.a and "'GAP'" in f.a]
        L.check(bool(disc), "T3", "TPF:gap:reader-discriminator", "reader recognises gap rows by column 1 == 'GAP'", "parse_tpf does not recognise gap rows by a first column 'GAP'", pt.loc())


def _skeleton_matches(pat, template, func):
    """regex must be: (any+) ':' (digits+) '-' (digits+) END, anchored at the start by re.match/fullmatch;
    template must be '{name}:{start}-{end}'."""
    if template != "{name}:{start}-{end}":
        return False, f"writer template is '{template}', expected '{{name}}:{{start}}-{{end}}'"
    rx = Rx(pat)
    items = rx.items()
    def is_group(it, gid, digits):
        if it[0] is not sre_c.SUBPATTERN or it[1][0] != gid:
            return False
        body = list(it[1][3])
        if len(body) != 1 or body[0][0] not in (sre_c.MAX_REPEAT, sre_c.MIN_REPEAT):
            return False
        lo, hi, sub = body[0][1]
        if lo != 1 or hi is not sre_c.MAXREPEAT or len(sub) != 1:
            return False
        cs = charset(sub[0], range(128))
        if digits:
            return cs == frozenset(map(ord, "0123456789"))
        return ord(":") in cs and ord("-") in cs and ord("A") in cs and ord("_") in cs
    anchored_end = bool(items) and items[-1][0] is sre_c.AT and items[-1][1] in (sre_c.AT_END, sre_c.AT_END_STRING) or func == "re.fullmatch"
    core = [it for it in items if it[0] is not sre_c.AT]
    ok = (
        len(core) == 5
        and is_group(core[0], 1, False)
        and core[1] == (sre_c.LITERAL, ord(":"))
        and is_group(core[2], 2, True)
        and core[3] == (sre_c.LITERAL, ord("-"))
        and is_group(core[4], 3, True)
    )
    if not ok:
        return False, f"regex {pat!r} is not (<any>+):(<digits>+)-(<digits>+): names containing ':' or '-' or the coordinates are not recovered exactly"
    if func == "re.search":
        return False, "re.search lets the name group start anywhere: a prefix of the name is dropped"
    if not anchored_end:
        return False, f"regex {pat!r} is not anchored at the end: trailing text after the coordinates is ignored"
    return True, ""


# ------------------------------------------------------------------------------ T4


def _t4_probes(L, parser: Func, lp, agp):
    """Every data line yields a row or an error: one iteration of the line loop is evaluated by constant propagation on probe
    data lines.  -> True when every probe was decided (then the textual reading of the skip guards is not needed)."""
    from ..finite import run_paths as _run_paths

    lv = lp.target.id
    if agp:
        probes = [
            "S1\t1\t100\t1\tW\tctg1\t1\t100\t+\n", "S1\t101\t300\t2\tU\t200\tscaffold\tyes\tproximity_ligation\n",
            "S1\t301\t400\t3\tW\tctg2\t5\t104\t-\tPainted\tX\n", "S2\t1\t10\t1\tN\t10\tscaffold\tyes\t\n",
            "S2\t11\t20\t2\tW\tctg3\t1\t10\t?\n", "S3\t1\t100\t1\tA\tacc.1\t1\t100\t+\n", "S3\t101\t200\t2\tD\tacc.2\t1\t100\t-\n",
            "S3\t201\t300\t3\tF\tacc.3\t1\t100\t+\n", "S3\t301\t400\t4\tP\tacc.4\t1\t100\t+\n", "S4\t1\t5\t1\tO\tacc.5\t1\t5\t+\r\n",
        ]
    else:
        probes = ["?\tctg1:1-100\tS1\tPLUS\n", "?\tctg2:5-104\tS1\tMINUS\tPainted\n", "GAP\tTYPE-2\t200\n", "GAP\tTYPE-3\t100\n", "?\tc:1-2\tS2\tUNKNOWN\r\n"]
    all_decided = True
    for pb in probes:
        res = _run_paths(lp.body, {lv: pb}, loop_iters=(0, 1))
        for r in res:
            if r["path"].status == "raise":
                continue
            adds = [c for e in r["path"].events if e.kind == "stmt" for c in [e.node, *walk_shallow(e.node)] if isinstance(c, ast.Call) and isinstance(c.func, ast.Attribute) and c.func.attr == "add_row"]
            if adds:
                continue
            # a path on which this data line produces neither a row nor an error
            state_only = all(not any(isinstance(x, ast.Name) and x.id == lv for x in ast.walk(c)) and "fields" not in norm(c) for c, _ in r["unknown_conds"])
            if r["unknown_conds"] and not state_only:
                all_decided = False
                continue
            L.fail(
                "T4", parser.short + ":data-line",
                f"the data line {pb!r} is consumed without producing a row or an error ({r['path'].describe()[:90]}): a line is silently skipped, so the parsed assembly lacks a row that the file has",
                parser.loc(lp), witness={"line": pb},
            )
            return True
    if all_decided:
        L.ok("T4", parser.short + ":data-line", f"each of {len(probes)} probe data lines yields a row or an error on every path (constant propagation through the loop body)", parser.loc(lp))
    return all_decided


def _t4(L, parser: Func, lp, agp):
    decided_by_probes = _t4_probes(L, parser, lp, agp)
    pe = PathEnum((0, 1), exc_edges=False)
    n_row = n_skip = 0
    ok, why = True, ""
    for p in pe.block(lp.body):
        adds = 0
        for e in p.events:
            if e.kind in ("stmt",):
                for c in [x for x in [e.node, *walk_shallow(e.node)] if isinstance(x, ast.Call) and isinstance(x.func, ast.Attribute) and x.func.attr == "add_row"]:
                    adds += 1
        facts = [(norm(t), v) for e in p.events if e.kind == "cond" for t, v in cond_facts(e.node, e.val)]
        if p.status == "raise":
            continue
        if adds == 0 and p.status in ("continue", "fall"):
            n_skip += 1
            blank = any(("re.match('\\\\s*$'" in t or "not line.strip()" in t or "line.isspace()" in t) and v for t, v in facts)
            comment = any("startswith('#" in t and v for t, v in facts)
            if adds:
                ok, why = False, "a skipped line also adds a row"
            if not (blank or comment) and not decided_by_probes:
                ok, why = False, f"a data line can be skipped silently: path conditions {facts[-3:]} end in 'continue' without the blank/comment guard"
        elif p.status == "fall":
            n_row += 1
            if adds != 1:
                ok, why = False, f"a data line yields {adds} rows"
        elif p.status in ("break", "return"):
            ok, why = False, f"the line loop can be left early ({p.status}): remaining lines are dropped"
    if n_row == 0:
        ok, why = False, "no path adds a row"
    L.check(ok, "T4", parser.short, f"{n_row} row paths, {n_skip} skip paths (blank/comment only), others raise", why, parser.loc(lp))
    # fallthrough branch of the TPF reader's dispatch is an error
    if not agp:
        raises = [p for p in pe.block(lp.body) if p.status == "raise"]
        L.check(len(raises) >= 3, "T4", parser.short + ":errors", "gap-before-fragment, bad name, wrong field count all raise", f"parse_tpf has only {len(raises)} rejecting paths (expected: gap before first fragment, bad name format, wrong field count)", parser.loc(lp))


# ------------------------------------------------------------------------------ T5


def _t5(repo, L):
    for cname, fields in (("Fragment", ("start", "end", "strand")), ("Gap", ("length",))):
        cls = repo.cls(cname)
        init = cls.methods.get("__init__")
        for f in fields:
            ok = any(isinstance(n, ast.Assign) and norm(n.targets[0]) == f"self._{f}" and norm(n.value) == f"int({f})" for n in walk_shallow(init.node))
            L.check(ok, "T5", f"{cname}.__init__:{f}", f"self._{f} = int({f})", f"{cname} no longer converts '{f}' with int(): parsed text stays a string and re-formatting/comparison changes", init.loc())


# ------------------------------------------------------------------------------ T7


def _t10(repo, L):
    """If a row class defines __eq__/__hash__, they must distinguish every field the codecs carry
    (otherwise any cache, dict or set keyed by rows — e.g. a memoising writer — merges different rows)."""
    for cname, fields in (("Fragment", ("name", "start", "end", "strand", "tags")), ("Gap", ("length", "gap_type"))):
        cls = repo.cls(cname)
        slots = try_fold(cls.attrs.get("__slots__"), default=()) if cls.attrs.get("__slots__") is not None else ()
        for meth in ("__eq__", "__hash__"):
            m = cls.methods.get(meth)
            if m is None:
                L.ok("T10", f"{cname}.{meth}", "not defined: identity semantics", cls.module.relpath)
                continue
            used = set()
            uses_all_slots = False
            for n in walk_shallow(m.node):
                if isinstance(n, ast.Attribute) and is_name(n.value, "self"):
                    used.add(n.attr.lstrip("_"))
                    mm = cls.methods.get(n.attr)
                    if mm is not None and any(isinstance(x, ast.Attribute) and x.attr == "__slots__" for x in walk_shallow(mm.node)):
                        uses_all_slots = True
                if isinstance(n, ast.Attribute) and n.attr == "__slots__":
                    uses_all_slots = True
            if uses_all_slots:
                used |= {str(x).lstrip("_") for x in (slots if isinstance(slots, tuple | list) else (slots,))}
            missing = [f for f in fields if f not in used]
            L.check(not missing, "T10", f"{cname}.{meth}", "distinguishes every field the codecs carry", f"{cname}.{meth} ignores {missing}: rows that differ only there are equal, so a dict/cache keyed by rows (e.g. a memoising writer) emits one row's text for the other", m.loc())


def _t7(L, parser: Func, lp, col):
    def _is_col(e):
        return ftxt(parser, e) == f"fields[{col}]"

    ifs = [n for n in walk_shallow(lp) if isinstance(n, ast.If) and isinstance(n.test, ast.Compare) and len(n.test.ops) == 1 and isinstance(n.test.ops[0], ast.NotEq) and (_is_col(n.test.left) or _is_col(n.test.comparators[0]))]
    ok, why = False, f"no `fields[{col}] != <current name>` scaffold switch"
    if len(ifs) == 1:
        iff = ifs[0]
        cur_e = iff.test.comparators[0] if _is_col(iff.test.left) else iff.test.left
        cur = norm(cur_e)
        body = [ftxt(parser, s) for s in iff.body]
        sets_cur = any(b == f"{cur} = fields[{col}]" for b in body)
        if not sets_cur and isinstance(cur_e, ast.Name):
            # the current name is read off the current scaffold:  cur = S.name if S else ''   and the body rebinds S
            from ..util import local_defs as _ld

            ds = _ld(parser, cur_e.id)
            if len(ds) == 1 and isinstance(ds[0], ast.IfExp) and isinstance(ds[0].test, ast.Name) and norm(ds[0].body) == f"{ds[0].test.id}.name" and isinstance(ds[0].orelse, ast.Constant) and ds[0].orelse.value in ("", None):
                sv_ = ds[0].test.id
                sets_cur = any(isinstance(s_, ast.Assign) and any(isinstance(t_, ast.Name) and t_.id == sv_ for t_ in s_.targets) and isinstance(s_.value, ast.Call) and dotted(s_.value.func) == "Scaffold" and s_.value.args and _is_col(s_.value.args[0]) for s_ in iff.body)
        new_sc = any(isinstance(s, ast.Assign) and isinstance(s.value, ast.Call) and dotted(s.value.func) == "Scaffold" and ftxt(parser, s.value.args[0]) in (cur, f"fields[{col}]") for s in iff.body)
        added = any("add_scaffold(" in b for b in body)
        ok = sets_cur and new_sc and added and not iff.orelse
        why = f"scaffold switch incomplete: remembers name={sets_cur}, new Scaffold={new_sc}, added to assembly={added}"
    L.check(ok, "T7", parser.short, f"new scaffold exactly when column {col + 1} changes", why, parser.loc(lp))


# ------------------------------------------------------------------------------ T8


def _t8_defaults(repo, L):
    """asm-format fills in a format the user did not give from the file's extension: the option that is tested must be the
    option that is filled in."""
    cli = repo.try_func("cli", "asm_format")
    if cli is None:
        raise AnalysisError("anchor asm_format.cli vanished")
    params = set(cli.params())
    n = 0
    for iff in [x for x in walk_shallow(cli.node) if isinstance(x, ast.If)]:
        t = iff.test
        if isinstance(t, ast.UnaryOp) and isinstance(t.op, ast.Not) and isinstance(t.operand, ast.Name) and t.operand.id in params and "format" in t.operand.id:
            tested = t.operand.id
            filled = [tg.id for st in iff.body if isinstance(st, ast.Assign) for tg in st.targets if isinstance(tg, ast.Name) and tg.id in params and "format" in tg.id]
            for fl in filled:
                n += 1
                L.check(fl == tested, "T8", f"{cli.short}:default:{fl}", f"'{fl}' inferred from the file name exactly when '{fl}' was not given", f"'{fl}' is inferred from the file name when '{tested}' is missing, not when '{fl}' itself is: an explicit input format suppresses the inference for the output file (it is then written in the input's format under the other format's extension), and an explicit output format is overridden when no input format is given", cli.loc(iff), witness={"command": "asm-format -i AGP x.dat -o x.tpf"})
    if n == 0:
        # formats defaulted some other way (helper, conditional expression): nothing to say
        return


def _t8(repo, L):
    _t8_defaults(repo, L)
    proc = repo.try_func("process_fh", "asm_format")
    if proc is None:
        raise AnalysisError("anchor asm_format.process_fh vanished")
    ps = proc.params()
    in_p, out_p = ps[1], ps[4]
    want_in = {"AGP": "parse_agp", "TPF": "parse_tpf"}
    want_out = {"AGP": "format_agp", "TPF": "format_tpf"}
    for iv in ("AGP", "TPF", "XXX"):
        for ov in ("AGP", "TPF", "XXX"):
            if len(ps) < 6:
                raise AnalysisError(f"process_fh has {len(ps)} parameters (in/out handles and formats, name, qc flag expected): dispatch not understood")
            env = {in_p: iv, out_p: ov, ps[5]: False}
            res = run_paths(proc.node.body, env, loop_iters=(0,))
            if len(res) != 1:
                raise AnalysisError(f"process_fh: {len(res)} feasible paths for ({iv},{ov})")
            r = res[0]
            called = []
            for e in r["path"].events:
                if e.kind == "stmt":
                    for c in [x for x in [e.node, *walk_shallow(e.node)] if isinstance(x, ast.Call)]:
                        d = dotted(c.func)
                        if d in ("parse_agp", "parse_tpf", "format_agp", "format_tpf"):
                            called.append(d)
            inst = f"{proc.short}[{iv}->{ov}]"
            raises = r["path"].status == "raise"
            if not raises and "XXX" in (iv, ov):
                # a format check delegated to a helper (`check_output_format(out_fmt)`): follow it one level with the probe's
                # values; a helper that raises on every path ends the run before anything after it
                for e in r["path"].events:
                    if e.kind != "stmt" or raises:
                        continue
                    for c in [x for x in [e.node, *walk_shallow(e.node)] if isinstance(x, ast.Call)]:
                        fn_ = repo.resolve_call(c, proc)[0]
                        if fn_ is None or dotted(c.func) in ("parse_agp", "parse_tpf", "format_agp", "format_tpf"):
                            continue
                        if not any(isinstance(a_, ast.Name) and a_.id in (in_p, out_p) for a_ in [*c.args, *[k.value for k in c.keywords]]):
                            continue
                        hp = fn_.params()
                        henv = {}
                        for i_, a_ in enumerate(c.args):
                            if i_ < len(hp) and isinstance(a_, ast.Name) and a_.id in env:
                                henv[hp[i_]] = env[a_.id]
                        for k_ in c.keywords:
                            if k_.arg in hp and isinstance(k_.value, ast.Name) and k_.value.id in env:
                                henv[k_.arg] = env[k_.value.id]
                        from ..finite import fold_env as _fe, module_consts as _mc

                        hres = run_paths(fn_.node.body, {**dict(_mc(fn_.module)), **henv}, loop_iters=(0,))
                        if hres and all(h_["path"].status == "raise" and not h_["unknown_conds"] for h_ in hres):
                            raises = True
                            # calls made after the helper do not happen
                            cut = [d_ for d_ in called]
                            called = []
                            for e2 in r["path"].events:
                                if e2 is e:
                                    break
                                if e2.kind == "stmt":
                                    for c2 in [x for x in [e2.node, *walk_shallow(e2.node)] if isinstance(x, ast.Call)]:
                                        if dotted(c2.func) in ("parse_agp", "parse_tpf", "format_agp", "format_tpf"):
                                            called.append(dotted(c2.func))
                            break
                        if any(h_["path"].status == "raise" or h_["unknown_conds"] for h_ in hres):
                            raise AnalysisError(f"{proc.short}: whether the format check delegated to {fn_.short} rejects ({iv},{ov}) is not decided by constant propagation: no verdict")
            if iv == "XXX":
                L.check(raises and not called, "T8", inst, "unknown input format raises", f"input format {iv!r}: path {'raises' if raises else 'does not raise'} after calling {called}", proc.loc())
            elif ov == "XXX":
                # rejecting the output format before the input is parsed is as good as after
                L.check(raises and called in ([want_in[iv]], []), "T8", inst, "unknown output format raises", f"output format {ov!r} does not end in an error (called {called})", proc.loc())
            else:
                L.check(called == [want_in[iv], want_out[ov]], "T8", inst, f"{want_in[iv]} then {want_out[ov]}", f"formats ({iv} -> {ov}) call {called}", proc.loc())


# ------------------------------------------------------------------------------ T9


def _t9(repo, L, fmt: Func, prs: Func, w, label):
    hdr = w.get("header")
    if hdr is None:
        raise AnalysisError(f"{fmt.short}: header line write not found")
    parts = hdr.items
    prefix = parts[0].v if parts and isinstance(parts[0], Const) else None
    ok_shape = prefix is not None and len(parts) == 3 and isinstance(parts[1], Fmt) and isinstance(parts[2], Const) and parts[2].v == "\n"
    L.check(ok_shape, "T9", f"{label}:writer", f"header written as {prefix!r} + text + newline", f"{label} header line is written as {hdr!r}", fmt.loc())
    if not ok_shape:
        return
    # reader: path-sensitive constant propagation over the loop body is not possible (regex); check the guards structurally
    loops = [n for n in walk_shallow(prs.node) if isinstance(n, ast.For)]
    lp = loops[0]
    lv = lp.target.id
    guards = []
    hdr_if = None
    from ..util import pos as _pos

    for s in sorted([x for x in walk_shallow(lp) if isinstance(x, ast.If)], key=_pos):
        if isinstance(s, ast.If):
            t = s.test
            if isinstance(t, ast.Call) and isinstance(t.func, ast.Attribute) and t.func.attr == "startswith" and is_name(t.func.value, lv):
                pre = try_fold(t.args[0], default=None)
                adds_header = any(isinstance(x, ast.Call) and isinstance(x.func, ast.Attribute) and x.func.attr == "add_header_line" for b in s.body for x in [b, *walk_shallow(b)])
                guards.append((pre, adds_header, s))
    # (a) by constant propagation: one iteration of the reader's line loop on the line the writer produces for a probe header
    # text; every feasible path must hand exactly that text to add_header_line
    from ..finite import UNKNOWN as _UNK, Opaque as _Opq, fold_env as _fold_env, run_paths as _run_paths
    from ..fold import NotConstant as _NC

    decided = True
    okp, whyp = True, ""
    n_pr = 0
    for text in ("HiC MAP RESOLUTION: 1160.5 bp/texel", "DESCRIPTION: Generated by PretextView Version 0.2.5", "x"):
        probe = f"{prefix}{text}\n"
        res = [r for r in _run_paths(lp.body, {lv: probe}, loop_iters=(0,)) if r["path"].status != "raise"]
        if not res:
            decided = False
            break
        for r in res:
            if r["unknown_conds"]:
                decided = False
                break
            adds = [c for e in r["path"].events if e.kind == "stmt" for c in [e.node, *walk_shallow(e.node)] if isinstance(c, ast.Call) and isinstance(c.func, ast.Attribute) and c.func.attr == "add_header_line"]
            if r["path"].status not in ("continue",) and not adds:
                # the line falls through to the row parser
                okp, whyp = False, f"the line {probe!r} written for the header text {text!r} is not consumed as a header line by the {label} reader (it reaches the row parser)"
                break
            if not adds:
                okp, whyp = False, f"the {label} reader skips the line {probe!r} that the {label} writer produces for the header text {text!r}: header lines (map resolution, description) are lost on re-parsing, so format → parse does not return the same header"
                break
            try:
                got = _fold_env(adds[0].args[0], r["env"]) if adds[0].args else None
            except _NC:
                decided = False
                break
            if got is _UNK or isinstance(got, _Opq):
                decided = False
                break
            if got != text:
                okp, whyp = False, f"the {label} reader stores {got!r} for the line {probe!r}; the writer produced it from {text!r}: the header changes on every round trip"
                break
        if not decided or not okp:
            break
        n_pr += 1
    if decided:
        L.check(okp, "T9", f"{label}:reader-round-trip", f"the line written for a header text is read back as that text ({n_pr} probe texts, constant propagation through the reader's loop body)", whyp, prs.loc(lp), witness={"prefix": prefix})
        return  # decided by evaluation: the structural reading of the guards below is only the fallback
    # first guard that matches the written prefix decides
    taken = next(((pre, adds, s) for pre, adds, s in guards if isinstance(pre, str) and prefix.startswith(pre)), None)
    L.check(taken is not None and taken[1], "T9", f"{label}:reader-accepts", f"lines starting {prefix!r} are taken as header lines", f"{label} reader {'skips' if taken else 'does not recognise'} lines starting with the writer's prefix {prefix!r}: header lines are lost on re-parsing", prs.loc(lp))
    if taken is None or not taken[1]:
        return
    rx_calls = [c for c in walk_shallow(taken[2]) if isinstance(c, ast.Call) and (dotted(c.func) or "") == "re.match"]
    ok = False
    why = "header text extraction regex not found"
    if len(rx_calls) == 1:
        pat = try_fold(rx_calls[0].args[0], default=None)
        if isinstance(pat, str):
            rx = Rx(pat)
            items = rx.items()
            if len(items) == 2 and items[0][0] is sre_c.MAX_REPEAT and items[1][0] is sre_c.SUBPATTERN:
                cs = charset(items[0][1][2][0], range(128))
                ok = all(ord(ch) in cs for ch in prefix) and items[0][1][0] <= len(prefix)
                why = f"prefix {prefix!r} is not consumed by the leading class of {pat!r}: the stored header text keeps the prefix and grows on every round trip"
                body = list(items[1][1][3])
                ok = ok and len(body) == 1 and body[0][0] is sre_c.MAX_REPEAT and body[0][1][2][0][0] is sre_c.ANY
    L.check(ok, "T9", f"{label}:reader-strips", "prefix stripped, rest of the line kept", why, prs.loc(lp))
