"""E5 `zones`: decision procedure for integer functions built from + - max min, comparisons,
and/or/not, if/return over a few integer variables (interval endpoints).

The variable space Z^n is partitioned into *order regions*: a weak order of the variables
(blocks of equal variables, strictly increasing between blocks) with each adjacent pair of
blocks labelled by its exact distance 1..K or by '>= K+1'.  Inside a region every comparison
`v + c  ?  w + d` with |c - d| <= K is decided, every max/min is one of its arguments, and
every expression is an affine form in (base, slack parameters t_i >= 0).  Two functions are
equal on the region iff their results have identical normal forms (or equal booleans).  A
comparison the region cannot decide raises `Undecided` (the caller raises K or reports an
analysis error) — never a silent pass.  No solver, no search: a finite enumeration.
"""

from __future__ import annotations

from fractions import Fraction
from itertools import permutations, product

from .model import AnalysisError
from .sym import B, Const, Lin, Sym, as_lin, NotNumeric


class Undecided(Exception):
    pass


def weak_orders(items):
    """All ordered set partitions of `items` (lists of blocks)."""
    items = list(items)
    if not items:
        yield []
        return
    first, rest = items[0], items[1:]
    for wo in weak_orders(rest):
        # insert `first` into an existing block or as a new block at any position
        for i in range(len(wo)):
            yield wo[:i] + [wo[i] | {first}] + wo[i + 1:]
        for i in range(len(wo) + 1):
            yield wo[:i] + [frozenset([first])] + wo[i:]


class Region:
    def __init__(self, blocks, gaps, K, flags=None):
        self.blocks = blocks  # list of frozensets of variable names
        self.gaps = gaps  # list of int (exact) or None (>= K+1), len = len(blocks)-1
        self.K = K
        self.flags = flags or {}
        self.pos = {}
        cur = Lin.const(0)
        self.tparams = []
        for i, b in enumerate(blocks):
            if i > 0:
                g = gaps[i - 1]
                if g is None:
                    t = f"t{i}"
                    self.tparams.append(t)
                    cur = cur + Lin.const(K + 1) + Lin.atom(t)
                else:
                    cur = cur + Lin.const(g)
            for v in b:
                self.pos[v] = Lin.atom("base") + cur

    def describe(self):
        parts = []
        for i, b in enumerate(self.blocks):
            if i > 0:
                g = self.gaps[i - 1]
                parts.append(f" <{'+' + str(g) if g is not None else '≥' + str(self.K + 1)}> ")
            parts.append("=".join(sorted(b)))
        fl = "".join(f" [{k}={v}]" for k, v in sorted(self.flags.items()))
        return "".join(parts) + fl

    def witness(self, base=10, slack=0):
        """One concrete integer point of the region."""
        env = {"base": Fraction(base)}
        for t in self.tparams:
            env[t] = Fraction(slack)
        out = {}
        for v, l in self.pos.items():
            val = l.c + sum(c * env[a] for a, c in l.t.items())
            out[v] = int(val)
        out.update(self.flags)
        return out

    # ---------------------------------------------------------------- evaluation

    def subst(self, lin: Lin) -> Lin:
        """Rewrite over (base, t_i); resolves opaque max/min/ite atoms."""
        out = Lin.const(lin.c)
        for a, c in lin.t.items():
            out = out + self.atom_value(a).scale(c)
        return out

    def atom_value(self, a) -> Lin:
        if isinstance(a, str):
            if a in self.pos:
                return self.pos[a]
            if a in self.flags and isinstance(self.flags[a], int):
                return Lin.const(self.flags[a])
            if a in ("base",) or a in self.tparams:
                return Lin.atom(a)
            raise Undecided(f"free symbol {a}")
        kind = a[0]
        if kind in ("max", "min"):
            x, y = self.subst(a[1]), self.subst(a[2])
            ge = self.decide_le(y - x)  # y <= x
            if kind == "max":
                return x if ge else y
            return y if ge else x
        if kind == "ite":
            c = self.truth(a[1])
            return self.subst(a[2] if c else a[3])
        if kind == "abs":
            x = self.subst(a[1])
            return x if self.decide_le(-x) else -x
        raise Undecided(f"opaque atom {kind}")

    def decide_le(self, lin: Lin) -> bool:
        """lin <= 0 ?  (lin already over base/t)"""
        if lin.coeff("base") != 0:
            raise Undecided(f"comparison depends on absolute position: {lin}")
        cs = [lin.coeff(t) for t in self.tparams]
        extra = [a for a in lin.t if a != "base" and a not in self.tparams]
        if extra:
            raise Undecided(f"free atoms {extra}")
        c = lin.c
        if all(x == 0 for x in cs):
            return c <= 0
        if all(x >= 0 for x in cs) and c > 0:
            return False
        if all(x <= 0 for x in cs) and c <= 0:
            return True
        raise Undecided(f"region {self.describe()} does not decide {lin} <= 0 (raise K)")

    def decide_eq(self, lin: Lin) -> bool:
        if lin.coeff("base") != 0:
            raise Undecided(f"equality depends on absolute position: {lin}")
        cs = [lin.coeff(t) for t in self.tparams]
        c = lin.c
        if all(x == 0 for x in cs):
            return c == 0
        if all(x >= 0 for x in cs) and c > 0:
            return False
        if all(x <= 0 for x in cs) and c < 0:
            return False
        raise Undecided(f"region {self.describe()} does not decide {lin} == 0 (raise K)")

    def truth(self, b: B) -> bool:
        k = b.kind
        if k == "const":
            return bool(b.a)
        if k == "le":
            return self.decide_le(self.subst(b.a))
        if k == "eq":
            return self.decide_eq(self.subst(b.a))
        if k == "not":
            return not self.truth(b.a)
        if k == "and":
            return all(self.truth(x) for x in b.a)
        if k == "or":
            return any(self.truth(x) for x in b.a)
        if k == "atom":
            if b.a in self.flags:
                return bool(self.flags[b.a])
            raise Undecided(f"opaque condition {b.a}")
        raise Undecided(k)

    def value(self, v):
        """Normal form of a result value in this region."""
        if isinstance(v, B):
            return ("bool", self.truth(v))
        if isinstance(v, Const):
            return ("const", v.v)
        try:
            return ("int", self.subst(as_lin(v)).key())
        except NotNumeric:
            raise Undecided(f"result {v!r}")

    def value_lin(self, v) -> Lin:
        return self.subst(as_lin(v))


def enumerate_regions(variables, le_constraints=(), K=2, flag_space=None):
    """All regions over `variables` consistent with constraints (a, b) meaning a <= b.
    flag_space: dict name -> iterable of values (boolean/int side conditions)."""
    flag_items = list((flag_space or {}).items())
    flag_combos = [dict(zip([k for k, _ in flag_items], vals)) for vals in product(*[list(v) for _, v in flag_items])] or [{}]
    seen = set()
    for wo in weak_orders(variables):
        key = tuple(tuple(sorted(b)) for b in wo)
        if key in seen:
            continue
        seen.add(key)
        idx = {v: i for i, b in enumerate(wo) for v in b}
        if any(idx[a] > idx[b] for a, b in le_constraints):
            continue
        labels = [*range(1, K + 1), None]
        for gaps in product(labels, repeat=max(0, len(wo) - 1)):
            for fl in flag_combos:
                yield Region(list(wo), list(gaps), K, fl)


class Summary:
    """Path summaries of a function: [(path condition list[B], return value)]."""

    def __init__(self, name, cases):
        self.name = name
        self.cases = cases

    def eval(self, region: Region):
        hits = []
        for pc, ret, info in self.cases:
            if all(region.truth(c) for c in pc):
                hits.append((ret, info))
        if len(hits) != 1:
            vals = {repr(region.value(r)) for r, _ in hits}
            if len(vals) == 1 and hits:
                return region.value(hits[0][0]), hits[0][1]
            raise Undecided(f"{self.name}: {len(hits)} paths enabled in region {region.describe()}")
        return region.value(hits[0][0]), hits[0][1]


def max_spread(summaries) -> int:
    """Largest |constant| appearing in a comparison/affine form — used to choose K."""
    m = 0

    def lin_c(l):
        nonlocal m
        m = max(m, abs(int(l.c)))
        for a in l.t:
            if isinstance(a, tuple):
                for x in a[1:]:
                    if isinstance(x, Lin):
                        lin_c(x)
                    elif isinstance(x, B):
                        b_c(x)

    def b_c(b):
        if b.kind in ("le", "eq"):
            lin_c(b.a)
        elif b.kind == "not":
            b_c(b.a)
        elif b.kind in ("and", "or"):
            for x in b.a:
                b_c(x)

    for s in summaries:
        for pc, ret, _ in s.cases:
            for c in pc:
                b_c(c)
            if isinstance(ret, B):
                b_c(ret)
            elif isinstance(ret, Lin):
                lin_c(ret)
    return m
