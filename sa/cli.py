"""Command line driver: decides one property (or all) on a source tree.

exit 0  every obligation discharged (listed known findings printed as KNOWN-FINDING)
exit 1  at least one unlisted violation: `VIOLATION property=<id> replay=<path>`
exit 2  ANALYSIS-ERROR (no verdict) — never a VIOLATION line
"""

from __future__ import annotations

import argparse
import importlib
import json
import os
import subprocess
import sys
import time
import traceback
from pathlib import Path

HERE = Path(__file__).resolve().parent
VERIF = HERE.parent
sys.path.insert(0, str(VERIF))

from sa.model import AnalysisError, Repo  # noqa: E402
from sa.report import Finding, Ledger, load_known, match_known, write_evidence  # noqa: E402

ALL = [f"C{n:02d}" for n in range(1, 21)]


def rule_module(prop):
    try:
        return importlib.import_module(f"sa.rules.{prop.lower()}")
    except ModuleNotFoundError as e:
        if e.name == f"sa.rules.{prop.lower()}":
            return None
        raise


def claimed():
    return [p for p in ALL if (HERE / "rules" / f"{p.lower()}.py").exists()]


STATE_BLIND_RULES = {("C03", "R6"), ("C13", "R3")}


def _findings_through_new_helpers(repo, findings):
    """-> [(finding, helper qualname)] for findings located in a function that directly calls a repository function which
    is not in the pinned inventory (sa/baseline_functions.json) and is still present after inlining"""
    import ast as _ast
    import re as _re

    from sa.inline import _baseline

    base = _baseline()
    if base is None or not findings:
        return []
    new = {q for q in repo.functions if q.split(".setter")[0] not in base}
    # state (attributes, class-level names) that does not exist on the pinned tree: the rules know no invariant about it
    new_attrs = set()
    try:
        import json as _json

        from sa.inline import BASELINE as _BL

        base_attrs = set(_json.loads(_BL.read_text()).get("stored_attrs", []))
        if base_attrs:
            for m_ in repo.modules.values():
                for n_ in _ast.walk(m_.tree):
                    if isinstance(n_, _ast.Attribute) and isinstance(n_.ctx, _ast.Store | _ast.Del) and n_.attr not in base_attrs:
                        new_attrs.add(n_.attr)
                    if isinstance(n_, _ast.ClassDef):
                        for st_ in n_.body:
                            if isinstance(st_, _ast.Assign):
                                new_attrs.update(t_.id for t_ in st_.targets if isinstance(t_, _ast.Name) and t_.id not in base_attrs)
    except Exception:
        new_attrs = set()
    if not new and not new_attrs:
        return []
    from sa.sym import SymExec

    followed = set(SymExec.FOLLOWED)  # helpers a symbolic run of this check did interpret
    out = []
    for f in findings:
        m = _re.match(r"(\S+?):(\d+)", f.loc or "")
        if not m:
            continue
        rel, line = m.group(1), int(m.group(2))
        owner = None
        for fn in repo.functions.values():
            if fn.module.relpath == rel and fn.node.lineno <= line <= (fn.node.end_lineno or fn.node.lineno):
                if owner is None or fn.node.lineno >= owner.node.lineno:
                    owner = fn
        if owner is None or owner.qualname in new:
            # the finding is inside a new helper itself: the rule looked into it, keep
            continue
        hit = None
        for c in repo.calls_in(owner):
            try:
                targets = repo.resolve_call(c, owner)[0]
            except Exception:
                targets = []
            for t in targets:
                if t.qualname in new and not t.qualname.endswith("__aslist") and t.qualname not in followed:
                    hit = t.qualname
        # reads of a property that is not in the pinned inventory (an un-followed helper in attribute clothing)
        if hit is None:
            new_props = {fn.name: fn.qualname for fn in repo.functions.values() if fn.qualname in new and fn.is_property and fn.qualname not in followed}
            if new_props:
                for a in _ast.walk(owner.node):
                    if isinstance(a, _ast.Attribute) and isinstance(a.ctx, _ast.Load) and a.attr in new_props:
                        hit = new_props[a.attr]
        # nested functions of the owner that are new closures
        if hit is None:
            for nm, nf in getattr(owner, "nested", {}).items():
                if any(isinstance(c.func, _ast.Name) and c.func.id == nm for c in repo.calls_in(owner)) and nf.qualname in new and owner.qualname in base:
                    # a closure defined inside a pinned function but not pinned itself
                    hit = nf.qualname
        # the function (or a new helper it calls) consults state added after the pinned inventory
        # (only for rules that compare symbolic arithmetic with a specification -- a value read from unknown state makes the
        # comparison meaningless; rules that reason about a state-dependent *condition* going either way are about that state)
        if hit is None and new_attrs and (f.prop, f.rule) in STATE_BLIND_RULES:
            scope = [owner]
            for c in repo.calls_in(owner):
                try:
                    scope.extend(t for t in repo.resolve_call(c, owner)[0] if t.qualname in new)
                except Exception:
                    pass
            for fn in scope:
                rd = sorted({a.attr for a in _ast.walk(fn.node) if isinstance(a, _ast.Attribute) and isinstance(a.ctx, _ast.Load) and a.attr in new_attrs})
                if rd:
                    hit = f"state:{fn.short} reads .{rd[0]}"
                    break
        if hit is not None:
            out.append((f, hit))
    return out


def run_one(prop, tier, root, replay=None, write_ev=True, quiet=False, selftest_info=None):
    mod = rule_module(prop)
    if mod is None:
        print(f"ANALYSIS-ERROR property={prop} no rule module (property not claimed)")
        return 2
    L = Ledger(prop, tier, root)
    t0 = time.time()
    # analysis budget: a rule that explodes on some tree must end in "no verdict", not hang the run (SA_BUDGET_S overrides)
    try:
        import signal as _signal

        budget = int(os.environ.get("SA_BUDGET_S", "600"))

        def _over(_sig, _frm):
            raise AnalysisError(f"analysis budget of {budget} s exceeded")

        _signal.signal(_signal.SIGALRM, _over)
        _signal.alarm(budget)
    except Exception:
        pass
    try:
        repo = Repo(root)
        type(L).REPO_FUNC_NAMES = {f.name for f in repo.functions.values()} - {"get", "pop", "items", "keys", "values", "copy", "start", "end", "read", "write", "tell", "seek"}
        repo.closed_world_guard()
        mod.run(repo, L, tier)
        n, d, distinct = L.counts()
        if n == 0:
            raise AnalysisError("no obligation was generated (vacuous run)")
        if L.floor_failures and not L.findings:
            # vacuity guard: too few instances matched and nothing was refuted -> no verdict
            raise AnalysisError("; ".join(L.floor_failures))
    except AnalysisError as e:
        if not L.findings:
            print(f"ANALYSIS-ERROR property={prop} {e}")
            return 2
        # obligations already refuted stand; the rest of the run gave no verdict
        print(f"note: analysis stopped early ({e}); reporting the {len(L.findings)} obligation(s) already refuted")
        repo = Repo(root)
    except RecursionError as e:
        print(f"ANALYSIS-ERROR property={prop} recursion limit: {e}")
        return 2
    except Exception as e:  # analyser bug: no verdict
        traceback.print_exc()
        print(f"ANALYSIS-ERROR property={prop} internal error {type(e).__name__}: {e}")
        return 2

    # A refutation located in a function that hands part of its work to a helper which is NOT on the pinned tree and
    # could not be inlined is not a refutation: what the helper does was not followed.  Such findings become "no verdict".
    try:
        unfollowed = _findings_through_new_helpers(repo, L.findings)
    except Exception:
        unfollowed = []
    if unfollowed:
        keep = [f for f in L.findings if f not in [x for x, _ in unfollowed]]
        for f, hq in unfollowed:
            if hq.startswith("state:"):
                print(f"note: {prop}.{f.rule} at {f.construct} not counted: {f.loc.split(' ')[0]}: {hq[6:]}, program state added after the pinned inventory about which the rules know no invariant")
            else:
                print(f"note: {prop}.{f.rule} at {f.construct} not counted: {f.loc.split(' ')[0]} delegates to {hq}(), a helper added after the pinned inventory that the analysis does not follow")
        if not keep:
            print(f"ANALYSIS-ERROR property={prop} every refuted obligation lies in code that delegates to helpers the analysis does not follow or consults state it knows nothing about ({', '.join(sorted({h[6:] if h.startswith('state:') else h for _, h in unfollowed}))})")
            return 2
        L.findings[:] = keep

    # Trust region: a finding of a shape-matching rule inside a function that has been rewritten beyond recognition (against the
    # skeleton recorded for it on the pinned tree) is "no verdict"; form-independent rules are exempt (sa/drift.py)
    try:
        from sa.drift import outside_trust_region

        drifted = outside_trust_region(repo, L.findings)
    except Exception:
        drifted = []
    if drifted:
        gone = [x for x, *_ in drifted]
        keep = [f for f in L.findings if f not in gone]
        for f, fn_short, dr, ed in drifted:
            print(f"note: {prop}.{f.rule} at {f.construct} not counted: {fn_short} has been rewritten (skeleton drift {dr:.2f}, {ed} statements differ from the pinned tree) and {prop}.{f.rule} matches the shape it was confirmed on")
        if not keep:
            print(f"ANALYSIS-ERROR property={prop} every refuted obligation comes from a shape-matching rule applied to a function rewritten beyond its trust region ({', '.join(sorted({s_ for _, s_, _, _ in drifted}))})")
            return 2
        L.findings[:] = keep

    known = load_known()
    unlisted, listed = [], []
    for f in L.findings:
        k = match_known(f, known)
        (listed if k else unlisted).append((f, k))

    if replay:
        want = json.loads(Path(replay).read_text())
        key = (want["property"], want["rule"], want["construct"], want["detail"])
        hits = [f for f in L.findings if f.key() == key]
        if not hits:
            # same rule+construct with a different detail still counts as "still refuted"
            hits = [f for f in L.findings if f.key()[:3] == key[:3]]
        for f in hits:
            _print_finding(f)
        if hits:
            print(f"VIOLATION property={prop} replay={replay}")
            return 1
        print(f"replay: obligation {want['rule']} on {want['construct']} is discharged on this tree")
        return 0

    for f, k in listed:
        print(f"KNOWN-FINDING: property={prop} {k.get('what', f.detail)} [{f.rule} @ {f.construct}]")
    L.extra["known"] = [f.as_dict() for f, _ in listed]

    rc = 0
    replay_dir = VERIF / "replay"
    for i, (f, _) in enumerate(unlisted):
        _print_finding(f)
        replay_dir.mkdir(exist_ok=True)
        rp = replay_dir / f"{prop}-{f.rule}-{i}.json"
        rp.write_text(json.dumps(f.as_dict(), indent=1, default=str) + "\n")
        print(f"VIOLATION property={prop} replay={rp}")
        rc = 1

    n, d, distinct = L.counts()
    if not quiet:
        print(
            f"{prop} [{tier}] root={root}: {n} obligations, {d} discharged, {len(listed)} known finding(s), "
            f"{len(unlisted)} violation(s), {distinct} distinct instances, {time.time() - t0:.2f}s"
        )
    if selftest_info is not None:
        L.extra["selftest"] = selftest_info
    if write_ev:
        stats = repo.stats()
        stats["digest"] = repo.digest()
        write_evidence(
            L,
            mod.LEVEL,
            {"explanation": mod.EXPLANATION},
            len(unlisted),
            VERIF / "evidence" / f"{prop}.json",
            repo_stats=stats,
            checker_cmd=f"./check {prop} --tier {tier}",
        )
    return rc


def _print_finding(f: Finding):
    print(f"--- {f.prop}.{f.rule} refuted at {f.loc or '?'} in {f.construct}")
    print(f"    {f.detail}")
    if f.witness is not None:
        print(f"    witness: {f.witness}")
    if f.path:
        print(f"    path: {f.path}")


def main(argv=None):
    ap = argparse.ArgumentParser(prog="check")
    ap.add_argument("prop")
    ap.add_argument("--tier", default=os.environ.get("VERIF_TIER") or "quick", choices=["quick", "thorough"])
    ap.add_argument("--root", default=os.environ.get("VERIF_ROOT", "/repo"))
    ap.add_argument("--replay")
    ap.add_argument("--no-evidence", action="store_true")
    ap.add_argument("--no-selftest", action="store_true")
    ap.add_argument("-j", type=int, default=os.cpu_count() or 4)
    a = ap.parse_args(argv)

    if a.prop.lower() == "all":
        props = claimed()
        procs = []
        for p in props:
            cmd = [sys.executable, "-B", str(HERE / "cli.py"), p, "--tier", a.tier, "--root", a.root]
            if a.no_evidence:
                cmd.append("--no-evidence")
            if a.no_selftest:
                cmd.append("--no-selftest")
            procs.append((p, subprocess.Popen(cmd, stdout=subprocess.PIPE, stderr=subprocess.STDOUT, text=True)))
        rc = 0
        for p, pr in procs:
            out, _ = pr.communicate()
            sys.stdout.write(out)
            rc = max(rc, pr.returncode)
        return rc

    prop = a.prop.upper()
    write_ev = not a.no_evidence and not a.replay and Path(a.root).resolve() == Path("/repo")
    st_info = None
    st_rc = 0
    if a.tier == "thorough" and not a.replay and not a.no_selftest:
        from sa import selftest

        st_rc, st_info = selftest.run_for(prop, a.root, jobs=a.j, verbose=False, want_info=True)
    mm_info = None
    if a.tier == "thorough" and not a.replay and not a.no_selftest:
        # metamorphic sample: behaviour-preserving transformations of the tree under analysis at sites in the files the property is
        # anchored in (tools/metamorph.py; compiled, not run); this check must not report a violation on any of them
        try:
            sys.path.insert(0, str(Path(__file__).resolve().parent.parent / "tools"))
            import metamorph

            files = []
            for ln in (Path(__file__).resolve().parent.parent / "properties.jsonl").read_text().splitlines():
                d_ = json.loads(ln)
                if d_.get("id") == prop:
                    files = [f_ for f_ in d_.get("anchors", {}).get("files", []) if f_.endswith(".py")]
            mm_info = metamorph.sample_for(prop, a.root, n=48, seed=0, jobs=a.j or 8, files=files)
        except Exception as e_:
            mm_info = {"error": f"{type(e_).__name__}: {e_}"}
        if st_info is not None:
            st_info["metamorphic_sample"] = mm_info
        if mm_info.get("false_alarms"):
            for vid_, msg_ in mm_info["false_alarms"]:
                print(f"selftest {prop} metamorphic {vid_}: FAIL — a VIOLATION on a behaviour-preserving transformation: {msg_}")
            st_rc = 1
    rc = run_one(prop, a.tier, a.root, a.replay, write_ev, selftest_info=st_info)
    if st_rc != 0 and rc == 0:
        print(f"ANALYSIS-ERROR property={prop} CHECKER-UNSOUND: self-validation failed (see above)")
        return 2
    return rc


if __name__ == "__main__":
    try:
        code = main()
    except SystemExit:
        raise
    except Exception as e:
        traceback.print_exc()
        print(f"ANALYSIS-ERROR internal error {type(e).__name__}: {e}")
        code = 2
    sys.stdout.flush()
    sys.exit(code)
