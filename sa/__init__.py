"""Static analysis machinery for sanger-tol/agp-tpf-utils (see /verif/DESIGN.md)."""
